#!/usr/bin/env python3
"""Regenerates /verif/MANIFEST.json from the table below (kept in one place so that the
manifest is always schema-valid). Run: python3 bin/mkmanifest.py"""
import json, os, sys
HERE = os.path.dirname(os.path.dirname(os.path.abspath(__file__)))
ALL = ["C%02d" % i for i in range(1, 19)]

# id -> (engine, technique, level text, level note, design ref)
MODEL_NOTE = "Trusted: SQLite 3.49 (bundled, math functions on) as the executing engine incl. its NULL ordering and binary collation; the reference interpreter's reading of the PRQL book (harness/src/model/eval.rs); results the book leaves open are counted as ambiguous and not judged. Recorded findings are excluded from the default generator by construction and re-exercised by probes and hazard sweeps (known_findings.json). Engines other than SQLite are not executed."
CHECKS = {
 "C01": ("model",
  "proptest tape-decoded program generation + differential execution on SQLite against an independent reference interpreter; Thorough tier: plus a coverage-guided libFuzzer campaign (cargo-fuzz, fork mode) over the same oracle (target tape_c01: the fuzzer mutates the generator's choice tape) + dedicated generators for set operations over relations of unknown columns and for grouped `sort | take 1` under the DISTINCT ON dialects (structural ORDER BY oracle)",
  "Each generated relational-core program is compiled (sqlite, generic), executed on an in-process SQLite over a generated instance and compared - values, multiplicities, and order where a sort is in effect - with a reference interpreter written from the PRQL book. Sampling: holds on everything explored, shrunk counterexample otherwise.",
  MODEL_NOTE, "DESIGN.md §2, §3 C01"),
 "C05": ("sqlbind",
  "proptest program generation + comparison of the resolver's final frame with the binder-computed / prepared-statement column list (all 12 dialects) + exclusion lists over two relations, case-variant column names through split shapes",
  "The emitted SQL of every dialect is re-parsed and its output column list computed by an independent binder (expanding *, t.*, EXCLUDE, CTEs, set operations); for sqlite/generic also the prepared statement's columns. Arity and every named column of the resolver's final frame (RQ relation.columns) must agree; the branches of a set operation must have equal arity. Exclusions over wildcard frames (joins of two wildcard relations, select !{..}) are decided strictly under duckdb / snowflake / bigquery.",
  "Trusted: sqlparser 0.60 as per-dialect parser, the binder in harness/src/sqlbind.rs, RQ relation.columns as the frame. Recorded findings (dedup, helper leak, order) are attributed by exact predicates.", "DESIGN.md §3 C05"),
 "C06": ("model",
  "proptest base-program generation + tape-chosen rewrites (let/into extraction, function abstraction, filter split/merge, identity insertion, module move) with a metamorphic oracle on SQLite results + exhaustive prefix x continuation x dialect table: naming a prefix that ends in a take must not change the LIMIT / OFFSET / FETCH / TOP clauses (8 dialects)",
  "Both the base and the rewritten program are compiled and executed on SQLite; their results must be equal as multisets (columns aligned by name). Reference-free.",
  MODEL_NOTE + " Rewrites other than filter split/merge and identity insertion may leave the language's scoping rules; a rejected rewrite is counted, not judged.", "DESIGN.md §3 C06"),
 "C07": ("sqlbind",
  "proptest program generation x 12 dialects, each emitted text re-parsed with sqlparser's dialect parser and bound by an independent scope checker + dialect capability lint (T-SQL set operators), DISTINCT ON left-most ORDER BY rule, column arrays / set-operation tails",
  "Every accepted generated program (plus dialect-sensitive extras) is compiled for all 12 dialects; each text must parse as exactly one query under sqlparser's parser for that dialect and every table, qualifier and column must resolve in the scope of its clause; set operations must have equal arity.",
  "Trusted: sqlparser 0.60 per dialect (known gaps excluded per dialect and construct: ClickHouse infix DIV, Redshift zero-column SELECT, AnsiDialect stricter than Generic) and the binder. Engine semantics other than SQLite's are not executed.", "DESIGN.md §3 C07"),
 "C08": ("api",
  "proptest value-first literal generation (own encoder for every documented spelling) and f-string composition over fragments / interpolated constants / columns + execution on SQLite and per-dialect token-level comparison",
  "A value is generated first and spelled in a documented form; the value SQLite returns must be the value, and under every dialect's tokenizer the statement must have the token structure it has with an innocuous literal, with the string token unescaping to the value. f-strings built from fragments, let-bound constants, a literal passed through a function parameter and a column must evaluate to the concatenation (SQLite) and their CONCAT / || pieces must concatenate to it under every dialect's tokenizer.",
  "Trusted: SQLite as executor (its decimal parsing within 1e-14), sqlparser's per-dialect tokenizer as the model of each engine's lexical rules.", "DESIGN.md §3 C08"),
 "C09": ("sqlbind",
  "proptest program generation with a hazardous identifier pool + differential execution on SQLite + case-sensitive binding under 12 dialects + dialect-specific reserved words (Redshift) must be quoted under that dialect",
  "Tables, let-tables, aliases and columns get hazardous names (keywords, spaces, quotes, mixed case, non-ASCII, leading digits, table_N, _expr_N); rows are compared with the reference interpreter on SQLite tables created with exactly those names, and the SQL of every dialect must bind case-sensitively against them. A second generator joins chains of relations with hazardous names / aliases, some repeated without alias so that the compiler invents aliases; marker columns decide which relation a qualified column came from.",
  MODEL_NOTE + " Case folding of engines other than SQLite is not executed.", "DESIGN.md §3 C09"),
 "C10": ("api",
  "proptest generation of well-scoped programs + one scope-breaking edit (5 classes), oracle = compile returns Err; Thorough tier: plus a coverage-guided libFuzzer campaign (cargo-fuzz, fork mode) over the same oracle (target tape_c10)",
  "A compiling program with fully known frames gets exactly one edit (dropped column referenced, ambiguous bare name after join, surplus positional argument, unknown named argument, scalar as relation), usually followed by further valid transforms; compile must fail.",
  "Trusted: the generator's frame model for what is 'dropped' / 'ambiguous' (calibrated on 27 hand-written cases). One recorded finding with an exact predicate.", "DESIGN.md §3 C10"),
 "C11": ("history",
  "proptest generation of call histories over several threads; oracle = canonical output from fresh child processes (run twice)",
  "Histories of 3-12 calls (compile, pl_to_rq, pl_to_prql, permuted multi-file project) on 1-8 barrier-released threads, including failing and panicking calls; every output must equal that of the same call in a fresh process, and two fresh processes must agree.",
  "Thread schedules are sampled, not owned; hash seeds vary by process and thread. Six defects found this way were repaired by fix: commits (hash-order dependent error text, formatting, column order, hint order, root-module choice, relation instance credited with a CTE's sort columns).", "DESIGN.md §3 C11"),
 "C12": ("fuzz",
  "proptest token-level mutation of valid programs + structure-aware mutation of PL/RQ JSON + nesting ladder, driven in isolated worker processes; oracle = no panic / deadly signal; Thorough tier: plus a coverage-guided libFuzzer campaign (cargo-fuzz, fork mode) over the same oracle for sources, PL JSON and RQ JSON (targets src_stages, json_pl, json_rq), artifacts re-judged in isolated workers",
  "Mutated sources and mutated PL/RQ JSON documents are driven through every public stage in worker processes (a stack overflow kills the worker, not the check); a panic or abort is a violation unless it matches a recorded panic (file + message prefix).",
  "Polynomial time cannot be decided by testing: watchdog time-outs are inconclusive, except that a short, shallow source (<= 4 KiB, bracket depth <= 12) that gets no answer within 2 x 60 s in two fresh workers is reported as non-termination. Recorded panics are matched on file and message prefix.", "DESIGN.md §3 C12"),
 "C13": ("api",
  "proptest fault injection into valid programs with ASCII / multi-byte / CRLF padding; validity predicate over every ErrorMessage + metamorphic padding invariance; Thorough tier: plus a coverage-guided libFuzzer campaign (cargo-fuzz, fork mode) over the same oracle on arbitrary source text (target err_span)",
  "Each returned error must have a reason, a span inside the source (character offsets), a location equal to the span's line/column and a rendered message quoting that line; replacing ASCII padding before the fault by multi-byte text of equal character length must not move span or location.",
  "Lexer-class faults are strict under multi-byte padding; parser/resolver-class faults under multi-byte padding are the recorded byte-offset finding. Faults inside f-/s-string placeholders (with escape sequences around) are included; the span of `Unknown name X` must cover X. Multi-file projects are not generated.", "DESIGN.md §3 C13"),
 "C02": ("model",
  "exhaustive (parent, child, side) operator table + proptest random typed expression trees, each evaluated by SQLite over a cross-product value table against a reference scalar evaluator of the intended tree + the same trees under ten more dialects executed on SQLite whenever SQLite prepares the text + a shared-operand mode (right operand derived as a column and referenced twice)",
  "Every type-correct (parent operator, child operator, left|right) combination (exhaustive within that table) and random typed trees to depth 5 are printed with the parentheses the documented table requires, compiled for sqlite/generic (the exhaustive table also for postgres, duckdb, mssql, clickhouse; the random trees for all 12 dialects, executed whenever SQLite prepares the text), evaluated by SQLite on all 675 operand combinations of the value domain and compared per row with the reference evaluator.",
  MODEL_NOTE + " The printer is independent of prqlc's formatter; a parser mis-binding therefore shows as a value difference.", "DESIGN.md §3 C02"),
 "C03": ("model",
  "proptest sort/take-biased program generation + differential execution (tie-class sequence oracle) + metamorphic slice invariant + DISTINCT ON order oracle for grouped `sort | take 1` under postgres / duckdb / clickhouse / redshift (14 contexts)",
  "Sort-biased programs are executed on SQLite and the row sequence is compared with the reference order as a sequence of tie classes; additionally `P | take a..b` must equal rows a..b of P's own result for total orders (reference-free).",
  MODEL_NOTE, "DESIGN.md §3 C03"),
 "C04": ("model",
  "proptest window-biased program generation + differential execution against a reference window evaluator + metamorphic comparison of OVER clauses under all 12 dialects when one frame-accepting aggregation function is replaced by another",
  "Window-biased programs (partition x sort x frame kind x bounds x function x placement) are executed on SQLite and compared row by row with a reference window evaluation; the comparison also fixes the row count.",
  MODEL_NOTE, "DESIGN.md §3 C04"),
 "C14": ("api",
  "proptest program generation + format/re-parse round trip, idempotence and same-SQL metamorphic oracle; exhaustive width ladder (16 templates x identifier lengths 1..70); Thorough tier: plus a coverage-guided libFuzzer campaign (cargo-fuzz, fork mode) over the same oracle on arbitrary source text the resolver accepts (target fmt_rt)",
  "Generated programs and the repository's queries are formatted, re-parsed and compared as syntax trees without spans/doc comments; formatting twice must be a fixed point; both texts must compile to the same SQL.",
  "Trusted: serde's JSON form of the PL tree as the notion of 'same syntax tree'. Programs are wrapped in lexically hazardous identifiers and string values (quotes, backslashes, control characters, $, non-ASCII). Recorded findings: integral float literals, an alias literally named `*`; two formatter defects were repaired by fix: commits.", "DESIGN.md §3 C14"),
 "C15": ("api",
  "proptest program generation x dialect/options + JSON round-trip and staged-vs-one-shot differential oracle; Thorough tier: plus a coverage-guided libFuzzer campaign (cargo-fuzz, fork mode) over the same oracle (target staged)",
  "PL and RQ must survive JSON (equal value, equal JSON value after re-serialisation) and the staged chain through both JSON documents must produce the same SQL or the same errors (kind, code, reason, hints, span) as compile().",
  "Trusted: PartialEq of the PL/RQ types. Differences must persist over repeated evaluation (compilation used to be non-deterministic; repaired). Identifiers and strings needing JSON escapes are generated.", "DESIGN.md §3 C15"),
 "C16": ("rqcheck",
  "proptest program generation + invariant validator over the resolver's RQ (history-free validity predicate); Thorough tier: plus a coverage-guided libFuzzer campaign (cargo-fuzz, fork mode) over the same oracle (target tape_c16)",
  "The RQ of every accepted generated program (all constructs enabled) is checked for unique definition, def-before-use and visibility of column ids, declared-before-use table ids, table-reference columns, From..Select pipeline shape and arity, is_aggregation consistency.",
  "Trusted: the JSON form of RelationalQuery. Sort keys only need def-before-use (the resolver carries sorts past Selects by design; calibrated on the repository's queries). Two recorded findings with exact violation-text predicates.", "DESIGN.md §3 C16"),
 "C18": ("api",
  "proptest program generation x exhaustive option-by-header matrix, differential oracle between the option and header paths + the staged entry point with explicit main paths",
  "For every generated program the complete matrix option in {none, 12 dialects} x header in {absent, sql.any, 12 dialects, 5 unknown names + 6 of 169 near-miss names (all 169 enumerated once)} is compiled and the documented precedence (option, then header, then generic; unknown is an error; resolver acceptance independent of the header) is checked.",
  "The matrix is exhaustive per program, programs are sampled. Differences must persist over repeated compilation (compilation is not deterministic).", "DESIGN.md §3 C18"),
 "C17": ("lexenum",
  "exhaustive small-scope enumeration + proptest random fragment strings against a tiling / re-lex round-trip oracle; Thorough tier: plus a coverage-guided libFuzzer campaign (cargo-fuzz, fork mode) over the same oracle (target lex_tile)",
  "Every string up to length 5 (quick) / 6 (thorough) over five themed alphabets of lexically significant characters is lexed and checked against the tiling and re-lex oracle (exhaustive within that bound), plus random fragment concatenations up to 200 chars. Holds on everything explored; says nothing beyond the bound except by sampling.",
  "Trusted: the oracle's reading of 'inline whitespace' (Unicode whitespace except CR/LF) and that token spans are byte ranges. One recorded finding (keyword look-ahead) is matched by an exact predicate.",
  "DESIGN.md §3 C17"),
}
NA_REASON = "check not built yet in this round (machinery under construction; see DESIGN.md §9 implementation order)"

def main():
    checks = []
    for pid in ALL:
        if pid not in CHECKS: continue
        eng, tech, text, note, ref = CHECKS[pid]
        checks.append({
            "property_id": pid,
            "quick_cmd": f"./bin/check {pid} quick",
            "thorough_cmd": f"./bin/check {pid} thorough",
            "evidence_file": f"/verif/evidence/{pid}.json",
            "replay_cmd_template": f"./bin/check {pid} --replay {{path}}",
            "engine": eng,
            "level_claimed": {"category": "exploration", "text": text, "design_ref": ref},
            "level_note": note,
            "technique": tech,
        })
    m = {
        "version": 1,
        "setup_cmd": "./bin/setup",
        "hooks": {
            "guard": "prqlc_verif",
            "enable": "none needed: every observation point is public API of prqlc / prqlc-parser; the harness links /repo's crates by path and rebuilds them on every check",
            "baseline_off_cmd": "cd /repo && cargo nextest run --workspace --no-fail-fast --offline || cargo test --workspace --no-fail-fast --offline",
            "source_commits": [],
            "add_only": True,
        },
        "engines": [
            {"name": "model", "path": "harness/src/model", "serves_properties": ["C01", "C02", "C03", "C04", "C06", "C09"], "kind_free_text": "tape-decoded abstract programs, PRQL printer, reference interpreter, in-process SQLite executor"},
            {"name": "sqlbind", "path": "harness/src/sqlbind.rs", "serves_properties": ["C05", "C07", "C09"], "kind_free_text": "binder over sqlparser's AST (serde JSON form): scopes, column resolution, output columns, for 12 dialects"},
            {"name": "history", "path": "harness/src/prop/c11.rs", "serves_properties": ["C11"], "kind_free_text": "call histories on threads vs canonical outputs from fresh child processes"},
            {"name": "fuzz", "path": "harness/src/prop/c12.rs", "serves_properties": ["C12"], "kind_free_text": "token / JSON mutation in isolated worker processes, nesting ladder in child processes"},
            {"name": "api", "path": "harness/src/prop", "serves_properties": ["C08", "C10", "C13", "C14", "C15", "C18"], "kind_free_text": "round-trip / differential / metamorphic oracles over the public prqlc API on generated programs"},
            {"name": "rqcheck", "path": "harness/src/rqcheck.rs", "serves_properties": ["C16"], "kind_free_text": "validator of RQ invariants over the JSON form of RelationalQuery"},
            {"name": "libfuzzer", "path": "fuzz", "serves_properties": ["C01", "C10", "C12", "C13", "C14", "C15", "C16", "C17"], "kind_free_text": "cargo-fuzz crate with ten libFuzzer targets that call the checks' own oracle functions (harness/src/fuzzglue.rs); campaigns and strict re-judgement of artifacts in harness/src/fuzzrun.rs; thorough tier only, built by bin/setup-fuzz (nightly toolchain, offline)"},
            {"name": "lexenum", "path": "harness/src/prop/c17.rs", "serves_properties": ["C17"], "kind_free_text": "exhaustive enumeration of short strings + proptest tape search"},
        ],
        "checks": checks,
        "notes": "All checks: ./bin/check <ID> <quick|thorough>; exit 0 held / 1 VIOLATION / 2 infrastructure or inconclusive. VERIF_SEED selects the PRNG streams (and libFuzzer's -seed). The thorough tier also runs libFuzzer campaigns (VERIF_FUZZ_SECS overrides their wall-clock budget, VERIF_NO_FUZZ=1 skips them); a budget hit is never a verdict. known_findings.json lists recorded defects; replays/<ID>/ holds the regression tier.",
        "not_applicable": [{"property_id": p, "reason": NA_REASON} for p in ALL if p not in CHECKS],
    }
    json.dump(m, open(os.path.join(HERE, "MANIFEST.json"), "w"), indent=1)
    try:
        import jsonschema
        jsonschema.validate(m, json.load(open("/root/.vp/MANIFEST.schema.json")))
        print("MANIFEST.json valid;", len(checks), "checks")
    except ImportError:
        print("written (jsonschema not available)")

if __name__ == "__main__":
    main()
