//! Generic driver: parallel proptest streams over a choice tape, exhaustive enumeration,
//! replay tier, statistics, evidence and the VIOLATION / KNOWN-FINDING protocol.

use std::cell::RefCell;
use std::collections::{BTreeMap, HashSet};
use std::hash::{Hash, Hasher};
use std::path::{Path, PathBuf};
use std::sync::atomic::{AtomicBool, Ordering};
use std::sync::Mutex;
use std::time::Instant;

use proptest::test_runner::{Config, RngSeed, TestCaseError, TestError, TestRunner};
use serde::Serialize;
use serde_json::{json, Value};

use crate::known::Known;
use crate::tape::Tape;

#[derive(Clone, Copy, PartialEq, Eq, Debug)]
pub enum Tier {
    Quick,
    Thorough,
}

#[derive(Debug, Clone)]
pub enum Verdict {
    Pass,
    /// Case could not be judged (reason is a short class name, counted).
    Skip(String),
    /// Oracle failed, and the failure matches the predicate of finding `id`.
    Known(String, String),
    /// Oracle failed.
    Fail(String, Value),
}

#[derive(Debug, Clone)]
pub struct Outcome {
    pub verdict: Verdict,
    pub nontrivial: bool,
    pub key: u64,
    pub classes: Vec<String>,
    pub sample: Option<Value>,
}

impl Outcome {
    pub fn pass() -> Self {
        Outcome {
            verdict: Verdict::Pass,
            nontrivial: false,
            key: 0,
            classes: vec![],
            sample: None,
        }
    }
    pub fn skip(why: &str) -> Self {
        Outcome {
            verdict: Verdict::Skip(why.to_string()),
            ..Outcome::pass()
        }
    }
    pub fn fail(what: &str, detail: Value) -> Self {
        Outcome {
            verdict: Verdict::Fail(what.to_string(), detail),
            ..Outcome::pass()
        }
    }
    pub fn class(mut self, c: impl Into<String>) -> Self {
        self.classes.push(c.into());
        self
    }
}

pub fn hash_of<T: Hash + ?Sized>(t: &T) -> u64 {
    let mut h = std::collections::hash_map::DefaultHasher::new();
    t.hash(&mut h);
    h.finish()
}

#[derive(Default)]
pub struct Stats {
    pub evaluations: u64,
    pub nontrivial_keys: HashSet<u64>,
    pub nontrivial_total: u64,
    pub bulk_distinct: u64,
    pub classes: BTreeMap<String, u64>,
    pub skips: BTreeMap<String, u64>,
    pub known_hits: BTreeMap<String, (u64, String)>,
    pub samples: Vec<Value>,
    pub per_check: BTreeMap<String, u64>,
    pub violations: Vec<(String, PathBuf)>,
    pub replays_run: u64,
    pub notes: Vec<String>,
    pub exhaustive: Option<bool>,
    pub extra: BTreeMap<String, Value>,
}

pub struct Ctx {
    pub property: String,
    pub tier: Tier,
    pub seed: u64,
    pub threads: usize,
    pub known: Known,
    pub stats: Mutex<Stats>,
    pub start: Instant,
    pub strict: bool,
    /// proptest shrink budget (lower it for checks whose single evaluation is expensive)
    pub shrink_iters: std::sync::atomic::AtomicU32,
    stream_counter: Mutex<u64>,
}

const MAX_SAMPLES: usize = 10;
/// once this many violations are recorded the remaining streams stop generating
const MAX_FAILS: usize = 4;

impl Ctx {
    pub fn new(property: &str, tier: Tier, seed: u64) -> Self {
        let threads = std::env::var("VERIF_THREADS")
            .ok()
            .and_then(|s| s.parse().ok())
            .unwrap_or_else(|| {
                std::thread::available_parallelism()
                    .map(|n| n.get())
                    .unwrap_or(8)
                    .min(16)
            });
        Ctx {
            property: property.to_string(),
            tier,
            seed,
            threads,
            known: Known::load(property),
            stats: Mutex::new(Stats::default()),
            start: Instant::now(),
            strict: false,
            shrink_iters: std::sync::atomic::AtomicU32::new(3000),
            stream_counter: Mutex::new(0),
        }
    }

    pub fn quick(&self) -> bool {
        self.tier == Tier::Quick
    }

    /// pick a count by tier
    pub fn n(&self, quick: u64, thorough: u64) -> u64 {
        let scale: f64 = std::env::var("VERIF_SCALE")
            .ok()
            .and_then(|s| s.parse().ok())
            .unwrap_or(1.0);
        let base = if self.quick() { quick } else { thorough };
        ((base as f64) * scale).ceil() as u64
    }

    pub fn note(&self, s: impl Into<String>) {
        self.stats.lock().unwrap().notes.push(s.into());
    }

    pub fn set_extra(&self, k: &str, v: Value) {
        self.stats.lock().unwrap().extra.insert(k.to_string(), v);
    }

    pub fn add_count(&self, class: &str, n: u64) {
        *self
            .stats
            .lock()
            .unwrap()
            .classes
            .entry(class.to_string())
            .or_default() += n;
    }

    /// Record one judged case. Returns true if it is a (new) violation.
    pub fn record<C: Serialize>(&self, check: &str, case: &C, out: &Outcome) -> bool {
        let mut st = self.stats.lock().unwrap();
        st.evaluations += 1;
        *st.per_check.entry(check.to_string()).or_default() += 1;
        for c in &out.classes {
            *st.classes.entry(c.clone()).or_default() += 1;
        }
        if out.nontrivial {
            st.nontrivial_total += 1;
            if st.nontrivial_keys.insert(out.key) && st.samples.len() < MAX_SAMPLES {
                if let Some(s) = &out.sample {
                    // spread samples: take every new one until half full, then sparsely
                    let n = st.nontrivial_keys.len();
                    if st.samples.len() < MAX_SAMPLES / 2 || n % 97 == 0 {
                        st.samples.push(json!({"check": check, "case": s}));
                    }
                }
            }
        }
        match &out.verdict {
            Verdict::Pass => false,
            Verdict::Skip(why) => {
                *st.skips.entry(why.clone()).or_default() += 1;
                false
            }
            Verdict::Known(id, what) => {
                let e = st
                    .known_hits
                    .entry(id.clone())
                    .or_insert((0, what.clone()));
                e.0 += 1;
                false
            }
            Verdict::Fail(what, detail) => {
                drop(st);
                self.report_violation(check, case, what, detail);
                true
            }
        }
    }

    pub fn report_violation<C: Serialize>(
        &self,
        check: &str,
        case: &C,
        what: &str,
        detail: &Value,
    ) -> PathBuf {
        let case_v = serde_json::to_value(case).unwrap_or(Value::Null);
        let body = json!({
            "property": self.property,
            "check": check,
            "seed": self.seed,
            "what": what,
            "case": case_v,
            "detail": detail,
        });
        let text = serde_json::to_string_pretty(&body).unwrap();
        let h = hash_of(&format!("{}{}{}", check, what, case_v));
        let dir = crate::verif_dir().join("replays").join(&self.property);
        let _ = std::fs::create_dir_all(&dir);
        let path = dir.join(format!("new-{:016x}.json", h));
        let _ = std::fs::write(&path, text);
        let mut st = self.stats.lock().unwrap();
        if !st.violations.iter().any(|(_, p)| p == &path) {
            println!(
                "VIOLATION property={} replay={}",
                self.property,
                path.display()
            );
            println!("  check={} what={}", check, what);
            st.violations.push((what.to_string(), path.clone()));
        }
        path
    }

    fn next_stream(&self) -> u64 {
        let mut c = self.stream_counter.lock().unwrap();
        *c += 1;
        *c
    }

    /// Random search: `cases` tapes of length < tape_len, decoded by `gen`, judged by `check`.
    /// Runs on all threads; each thread is an independent proptest runner (own PRNG stream
    /// derived from VERIF_SEED). The first failure of a stream is shrunk and reported.
    pub fn tape_search<C, G, F>(&self, check_name: &str, cases: u64, tape_len: usize, gen: G, check: F)
    where
        C: Serialize + Send,
        G: Fn(&mut Tape) -> C + Sync,
        F: Fn(&C) -> Outcome + Sync,
    {
        let threads = self.threads.max(1) as u64;
        let per = (cases + threads - 1) / threads;
        let base_stream = self.next_stream();
        std::thread::scope(|s| {
            for t in 0..threads {
                let gen = &gen;
                let check = &check;
                let name = check_name;
                let builder = std::thread::Builder::new().stack_size(64 << 20);
                builder
                    .spawn_scoped(s, move || {
                        let stream_seed = self
                            .seed
                            .wrapping_mul(0x9E3779B97F4A7C15)
                            .wrapping_add(base_stream.wrapping_mul(0x1000193))
                            .wrapping_add(t.wrapping_mul(0xD1B54A32D192ED03))
                            ^ hash_of(name);
                        let cfg = Config {
                            cases: per as u32,
                            rng_seed: RngSeed::Fixed(stream_seed),
                            failure_persistence: None,
                            max_shrink_iters: self.shrink_iters.load(Ordering::Relaxed),
                            max_global_rejects: 1 << 30,
                            max_local_rejects: 1 << 30,
                            ..Config::default()
                        };
                        let mut runner = TestRunner::new(cfg);
                        let failed = AtomicBool::new(false);
                        let strat = proptest::collection::vec(proptest::num::u16::ANY, 0..tape_len);
                        let res = runner.run(&strat, |words| {
                            if !failed.load(Ordering::Relaxed) && self.stats.lock().unwrap().violations.len() >= MAX_FAILS {
                                return Ok(());
                            }
                            let mut tape = Tape::new(&words);
                            let case = gen(&mut tape);
                            let out = check(&case);
                            if failed.load(Ordering::Relaxed) {
                                // shrinking phase: only the verdict matters
                                return match out.verdict {
                                    Verdict::Fail(w, _) => Err(TestCaseError::fail(w)),
                                    _ => Ok(()),
                                };
                            }
                            match &out.verdict {
                                Verdict::Fail(w, _) => {
                                    failed.store(true, Ordering::Relaxed);
                                    // the original failing case is recorded at once (a
                                    // nondeterministic failure may not survive shrinking); the
                                    // minimal one is recorded below
                                    self.record(name, &case, &out);
                                    Err(TestCaseError::fail(w.clone()))
                                }
                                _ => {
                                    self.record(name, &case, &out);
                                    Ok(())
                                }
                            }
                        });
                        if let Err(TestError::Fail(_, words)) = res {
                            let mut tape = Tape::new(&words);
                            let case = gen(&mut tape);
                            let out = check(&case);
                            match out.verdict {
                                Verdict::Fail(..) => {
                                    self.record(name, &case, &out);
                                }
                                _ => {
                                    // the failure (already recorded with its original case)
                                    // did not reproduce on the shrunk tape
                                    self.note(format!(
                                        "check {name}: a failure did not reproduce on its shrunk tape (nondeterministic subject or flaky oracle); the original case was recorded"
                                    ));
                                }
                            }
                        } else if let Err(TestError::Abort(r)) = res {
                            self.note(format!("check {name}: proptest aborted: {r}"));
                        }
                    })
                    .expect("spawn");
            }
        });
    }

    /// Judge an explicit list of cases in parallel (exhaustive enumeration / tables).
    pub fn enumerate<C, F>(&self, check_name: &str, cases: Vec<C>, check: F)
    where
        C: Serialize + Send + Sync,
        F: Fn(&C) -> Outcome + Sync,
    {
        let n = cases.len();
        let threads = self.threads.max(1);
        let chunk = (n + threads - 1) / threads.max(1);
        if n == 0 {
            return;
        }
        std::thread::scope(|s| {
            for part in cases.chunks(chunk.max(1)) {
                let check = &check;
                let builder = std::thread::Builder::new().stack_size(64 << 20);
                builder
                    .spawn_scoped(s, move || {
                        let mut fails = 0;
                        for c in part {
                            let out = check(c);
                            if self.record(check_name, c, &out) {
                                fails += 1;
                                if fails >= 3 {
                                    break;
                                }
                            }
                        }
                    })
                    .expect("spawn");
            }
        });
    }

    /// Replay tier: every committed replay of this property must pass (or be a known finding).
    pub fn run_replays<F>(&self, replay: F)
    where
        F: Fn(&str, &Value) -> Option<Outcome>,
    {
        let dir = crate::verif_dir().join("replays").join(&self.property);
        let mut files: Vec<PathBuf> = std::fs::read_dir(&dir)
            .map(|rd| rd.filter_map(|e| e.ok().map(|e| e.path())).collect())
            .unwrap_or_default();
        files.sort();
        for f in files {
            if f.extension().map(|e| e != "json").unwrap_or(true) {
                continue;
            }
            // files named new-* are written by this run's predecessors and are not committed
            if f.file_name()
                .and_then(|n| n.to_str())
                .map(|n| n.starts_with("new-"))
                .unwrap_or(false)
            {
                continue;
            }
            match self.replay_file(&f, &replay) {
                Some(true) => {}
                Some(false) => {}
                None => self.note(format!("replay file {} not understood", f.display())),
            }
        }
    }

    pub fn replay_file<F>(&self, f: &Path, replay: &F) -> Option<bool>
    where
        F: Fn(&str, &Value) -> Option<Outcome>,
    {
        let text = std::fs::read_to_string(f).ok()?;
        let v: Value = serde_json::from_str(&text).ok()?;
        let check = v.get("check")?.as_str()?.to_string();
        let case = v.get("case")?;
        let out = replay(&check, case)?;
        let mut st = self.stats.lock().unwrap();
        st.replays_run += 1;
        st.evaluations += 1;
        match &out.verdict {
            Verdict::Fail(what, _) => {
                println!(
                    "VIOLATION property={} replay={}",
                    self.property,
                    f.display()
                );
                println!("  check={} what={}", check, what);
                st.violations.push((what.clone(), f.to_path_buf()));
                Some(false)
            }
            Verdict::Known(id, what) => {
                let e = st.known_hits.entry(id.clone()).or_insert((0, what.clone()));
                e.0 += 1;
                Some(true)
            }
            _ => Some(true),
        }
    }

    /// Write evidence, print KNOWN-FINDING lines, return the exit code.
    pub fn finish(&self, rule: &str, assumptions: &[&str]) -> i32 {
        let st = self.stats.lock().unwrap();
        let wall = self.start.elapsed().as_secs_f64();
        for (id, (n, what)) in &st.known_hits {
            println!(
                "KNOWN-FINDING: property={} {} :: {} (met {} times)",
                self.property, id, what, n
            );
        }
        let mut coverage = serde_json::Map::new();
        coverage.insert("evaluations".into(), json!(st.evaluations));
        coverage.insert(
            "distinct_nontrivial".into(),
            json!(st.nontrivial_keys.len() as u64 + st.bulk_distinct),
        );
        coverage.insert("nontrivial_total".into(), json!(st.nontrivial_total));
        coverage.insert("rule".into(), json!(rule));
        coverage.insert("samples".into(), json!(st.samples));
        coverage.insert("classes".into(), json!(st.classes));
        coverage.insert("per_check".into(), json!(st.per_check));
        coverage.insert("skipped".into(), json!(st.skips));
        coverage.insert(
            "known_finding_hits".into(),
            json!(st
                .known_hits
                .iter()
                .map(|(k, (n, w))| (k.clone(), json!({"count": n, "what": w})))
                .collect::<BTreeMap<_, _>>()),
        );
        coverage.insert("replays_run".into(), json!(st.replays_run));
        coverage.insert("notes".into(), json!(st.notes));
        coverage.insert("threads".into(), json!(self.threads));
        if let Some(e) = st.exhaustive {
            coverage.insert("exhaustive".into(), json!(e));
        }
        for (k, v) in &st.extra {
            coverage.insert(k.clone(), v.clone());
        }
        let ev = json!({
            "property_id": self.property,
            "tier": if self.quick() {"quick"} else {"thorough"},
            "seed": self.seed,
            "level": "exploration",
            "coverage": Value::Object(coverage),
            "assumptions": assumptions,
            "wall_s": wall,
            "violations": st.violations.len(),
            "violation_files": st.violations.iter().map(|(w,p)| json!({"what": w, "replay": p})).collect::<Vec<_>>(),
        });
        let dir = crate::verif_dir().join("evidence");
        let _ = std::fs::create_dir_all(&dir);
        let path = dir.join(format!("{}.json", self.property));
        if let Err(e) = std::fs::write(&path, serde_json::to_string_pretty(&ev).unwrap()) {
            eprintln!("cannot write evidence: {e}");
            return 2;
        }
        println!(
            "{} {}: evaluations={} distinct_nontrivial={} skipped={} known_hits={} violations={} wall={:.1}s",
            self.property,
            if self.quick() { "quick" } else { "thorough" },
            st.evaluations,
            st.nontrivial_keys.len() as u64 + st.bulk_distinct,
            st.skips.values().sum::<u64>(),
            st.known_hits.values().map(|x| x.0).sum::<u64>(),
            st.violations.len(),
            wall
        );
        if !st.violations.is_empty() {
            1
        } else if st.evaluations == 0 || (st.nontrivial_keys.len() as u64 + st.bulk_distinct) < 2 {
            eprintln!("inconclusive: too few non-trivial cases");
            2
        } else {
            0
        }
    }
}

// ---------------------------------------------------------------------------------------
// panic capture

thread_local! {
    static LAST_PANIC: RefCell<Option<PanicInfo>> = const { RefCell::new(None) };
    static QUIET: RefCell<bool> = const { RefCell::new(false) };
}

#[derive(Debug, Clone, Serialize)]
pub struct PanicInfo {
    pub file: String,
    pub line: u32,
    pub message: String,
}

pub fn install_panic_hook() {
    let default = std::panic::take_hook();
    std::panic::set_hook(Box::new(move |info| {
        let quiet = QUIET.with(|q| *q.borrow());
        let (file, line) = info
            .location()
            .map(|l| (l.file().to_string(), l.line()))
            .unwrap_or(("?".into(), 0));
        let message = if let Some(s) = info.payload().downcast_ref::<&str>() {
            s.to_string()
        } else if let Some(s) = info.payload().downcast_ref::<String>() {
            s.clone()
        } else {
            "<non-string panic>".to_string()
        };
        LAST_PANIC.with(|p| {
            *p.borrow_mut() = Some(PanicInfo {
                file,
                line,
                message,
            })
        });
        if !quiet {
            default(info);
        }
    }));
}

/// Run `f`, turning an unwind into `Err(PanicInfo)`.
pub fn catch<T>(f: impl FnOnce() -> T) -> Result<T, PanicInfo> {
    QUIET.with(|q| *q.borrow_mut() = true);
    let r = std::panic::catch_unwind(std::panic::AssertUnwindSafe(f));
    QUIET.with(|q| *q.borrow_mut() = false);
    match r {
        Ok(v) => Ok(v),
        Err(_) => Err(LAST_PANIC.with(|p| p.borrow_mut().take()).unwrap_or(PanicInfo {
            file: "?".into(),
            line: 0,
            message: "?".into(),
        })),
    }
}
