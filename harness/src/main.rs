use pv::runner::{install_panic_hook, Ctx, Tier};

fn usage() -> ! {
    eprintln!("usage: pv check <ID> <quick|thorough> | pv replay <ID> <file> | pv oneshot ...");
    std::process::exit(2);
}

fn main() {
    install_panic_hook();
    let args: Vec<String> = std::env::args().collect();
    if args.len() < 2 {
        usage();
    }
    let seed: u64 = std::env::var("VERIF_SEED")
        .ok()
        .and_then(|s| s.trim().parse::<i128>().ok())
        .map(|v| v as u64)
        .unwrap_or(1);
    match args[1].as_str() {
        "check" => {
            if args.len() < 4 {
                usage();
            }
            let tier = match args[3].as_str() {
                "quick" => Tier::Quick,
                "thorough" => Tier::Thorough,
                _ => usage(),
            };
            let ctx = Ctx::new(&args[2], tier, seed);
            let code = pv::prop::run(&ctx);
            std::process::exit(code);
        }
        "replay" => {
            if args.len() < 4 {
                usage();
            }
            let ctx = Ctx::new(&args[2], Tier::Quick, seed);
            let code = pv::prop::replay(&ctx, std::path::Path::new(&args[3]));
            std::process::exit(code);
        }
        _ => {
            let code = pv::prop::aux(&args[1..]);
            std::process::exit(code);
        }
    }
}
