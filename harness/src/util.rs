//! Small helpers around the prqlc public API.

use prqlc::sql::Dialect;
use prqlc::{ErrorMessages, Options, Target};

use crate::runner::{catch, PanicInfo};

pub const DIALECTS: &[(&str, Dialect)] = &[
    ("generic", Dialect::Generic),
    ("sqlite", Dialect::SQLite),
    ("postgres", Dialect::Postgres),
    ("mysql", Dialect::MySql),
    ("mssql", Dialect::MsSql),
    ("clickhouse", Dialect::ClickHouse),
    ("bigquery", Dialect::BigQuery),
    ("duckdb", Dialect::DuckDb),
    ("snowflake", Dialect::Snowflake),
    ("ansi", Dialect::Ansi),
    ("glaredb", Dialect::GlareDb),
    ("redshift", Dialect::Redshift),
];

pub fn dialect_by_name(n: &str) -> Option<Dialect> {
    DIALECTS.iter().find(|(k, _)| *k == n).map(|(_, d)| *d)
}

pub fn opts(d: Option<Dialect>) -> Options {
    Options::default()
        .no_signature()
        .no_format()
        .with_target(Target::Sql(d))
        .with_display(prqlc::DisplayOptions::Plain)
}

#[derive(Debug, Clone)]
pub enum Compiled {
    Sql(String),
    Err(Vec<String>),
    Panic(PanicInfo),
}

pub fn err_reasons(e: &ErrorMessages) -> Vec<String> {
    e.inner.iter().map(|m| m.reason.clone()).collect()
}

pub fn compile(src: &str, d: Option<Dialect>) -> Compiled {
    let o = opts(d);
    match catch(|| prqlc::compile(src, &o)) {
        Ok(Ok(sql)) => Compiled::Sql(sql),
        Ok(Err(e)) => Compiled::Err(err_reasons(&e)),
        Err(p) => Compiled::Panic(p),
    }
}

/// like `compile`, with the default output formatting (`Options::format = true`)
pub fn compile_formatted(src: &str, d: Option<Dialect>) -> Compiled {
    let mut o = opts(d);
    o.format = true;
    match catch(|| prqlc::compile(src, &o)) {
        Ok(Ok(sql)) => Compiled::Sql(sql),
        Ok(Err(e)) => Compiled::Err(err_reasons(&e)),
        Err(p) => Compiled::Panic(p),
    }
}

/// short, stable class name for an error reason (digits and quoted names removed)
pub fn reason_class(r: &str) -> String {
    let mut out = String::new();
    let mut in_tick = false;
    for c in r.chars().take(80) {
        if c == '`' {
            in_tick = !in_tick;
            out.push('`');
            continue;
        }
        if in_tick {
            continue;
        }
        if c.is_ascii_digit() {
            continue;
        }
        if c == '\n' {
            break;
        }
        out.push(c);
    }
    out
}

/// Compilation of some programs is not deterministic (finding C11-column-order-hash-dependent).
/// Two computations are reported as different only if repeated evaluation of each yields
/// disjoint sets of outputs.
pub fn genuinely_different(a: &dyn Fn() -> String, b: &dyn Fn() -> String) -> bool {
    let mut sa: Vec<String> = vec![];
    let mut sb: Vec<String> = vec![];
    for _ in 0..10 {
        let x = a();
        if !sa.contains(&x) {
            sa.push(x);
        }
        let y = b();
        if !sb.contains(&y) {
            sb.push(y);
        }
    }
    !sa.iter().any(|x| sb.contains(x))
}

/// sources of the repository's integration queries (small seed corpus of real programs)
pub fn repo_queries() -> Vec<String> {
    let mut v = vec![];
    let dir = std::path::Path::new("/repo/prqlc/prqlc/tests/integration/queries");
    if let Ok(rd) = std::fs::read_dir(dir) {
        let mut files: Vec<_> = rd.filter_map(|e| e.ok().map(|e| e.path())).collect();
        files.sort();
        for f in files {
            if f.extension().map(|e| e == "prql").unwrap_or(false) {
                if let Ok(s) = std::fs::read_to_string(&f) {
                    v.push(s);
                }
            }
        }
    }
    v
}

/// PRQL programs found in the repository itself: the fenced `prql` blocks of the book and the website,
/// the raw-string programs of the integration tests (accepted and rejected ones), the integration
/// queries and the two standard-library sources. Real programs cover syntax the model does not
/// generate (types, annotations, modules, lambdas, dates, s-strings, parameters).
pub fn corpus_programs() -> Vec<String> {
    fn walk(dir: &std::path::Path, out: &mut Vec<std::path::PathBuf>, ext: &str) {
        let Ok(rd) = std::fs::read_dir(dir) else { return };
        let mut entries: Vec<_> = rd.filter_map(|e| e.ok().map(|e| e.path())).collect();
        entries.sort();
        for p in entries {
            if p.is_dir() {
                if p.file_name().map(|n| n == "node_modules" || n == "target").unwrap_or(false) {
                    continue;
                }
                walk(&p, out, ext);
            } else if p.extension().map(|e| e == ext).unwrap_or(false) {
                out.push(p);
            }
        }
    }
    let mut v: Vec<String> = repo_queries();
    for f in ["/repo/prqlc/prqlc/src/semantic/std.prql", "/repo/prqlc/prqlc/src/sql/std.sql.prql"] {
        if let Ok(s) = std::fs::read_to_string(f) {
            v.push(s);
        }
    }
    // fenced blocks
    let mut mds = vec![];
    walk(std::path::Path::new("/repo/web"), &mut mds, "md");
    mds.push(std::path::PathBuf::from("/repo/README.md"));
    for f in mds {
        let Ok(text) = std::fs::read_to_string(&f) else { continue };
        let mut cur: Option<String> = None;
        for line in text.lines() {
            match &mut cur {
                None => {
                    if line.trim_start().starts_with("```prql") {
                        cur = Some(String::new());
                    }
                }
                Some(buf) => {
                    if line.trim_start().starts_with("```") {
                        v.push(std::mem::take(buf));
                        cur = None;
                    } else {
                        buf.push_str(line);
                        buf.push('\n');
                    }
                }
            }
        }
    }
    // raw strings of the integration tests
    let re = regex::Regex::new(r##"(?s)r(#+)"(.*?)"#+"##).unwrap();
    let mut rs = vec![];
    walk(std::path::Path::new("/repo/prqlc/prqlc/tests/integration"), &mut rs, "rs");
    for f in rs {
        let Ok(text) = std::fs::read_to_string(&f) else { continue };
        for c in re.captures_iter(&text) {
            let body = c.get(2).map(|m| m.as_str()).unwrap_or("");
            let t = body.trim_start();
            let looks_prql = (t.contains("from ") || t.contains("let ") || t.contains("prql ")) && !t.starts_with("SELECT") && !t.starts_with("WITH") && !t.starts_with("Error") && !t.contains("───");
            if looks_prql && body.len() < 4000 {
                v.push(body.to_string());
            }
        }
    }
    v.sort();
    v.dedup();
    v
}

/// `SELECT DISTINCT ON (k..)` keeps, per value of k, the first row of the block's own ORDER BY, and
/// that ORDER BY must begin with k. Returns a description of the first block that has no ORDER BY
/// of its own (before the block ends: closing parenthesis, set operator, end of statement), or
/// whose ORDER BY is not longer than the key list when `need_sort` (the group's pipeline sorted).
pub fn distinct_on_lint(sql: &str, need_sort: bool) -> Option<String> {
    let b = sql.as_bytes();
    let mut from = 0;
    while let Some(p) = sql[from..].find("SELECT DISTINCT ON (") {
        let open = from + p + "SELECT DISTINCT ON ".len();
        // key list
        let (mut depth, mut j) = (0i32, open);
        while j < b.len() {
            match b[j] {
                b'(' => depth += 1,
                b')' => {
                    depth -= 1;
                    if depth == 0 {
                        break;
                    }
                }
                _ => {}
            }
            j += 1;
        }
        let keys = &sql[open + 1..j.min(sql.len())];
        let nkeys = top_level_pieces(keys);
        // rest of the block
        let (mut depth, mut k, mut in_str) = (0i32, j + 1, false);
        let mut end = sql.len();
        while k < b.len() {
            let c = b[k];
            if c == b'\'' {
                in_str = !in_str;
            } else if !in_str {
                if c == b'(' {
                    depth += 1;
                } else if c == b')' {
                    depth -= 1;
                    if depth < 0 {
                        end = k;
                        break;
                    }
                } else if depth == 0 && (sql[k..].starts_with(" UNION ") || sql[k..].starts_with(" EXCEPT ") || sql[k..].starts_with(" INTERSECT ")) {
                    end = k;
                    break;
                }
            }
            k += 1;
        }
        let block = &sql[j + 1..end];
        // ORDER BY at depth 0 of the block
        let (mut depth, mut ob) = (0i32, None);
        let bb = block.as_bytes();
        let mut q = 0;
        while q < bb.len() {
            match bb[q] {
                b'(' => depth += 1,
                b')' => depth -= 1,
                _ => {
                    if depth == 0 && block[q..].starts_with(" ORDER BY ") {
                        ob = Some(q + 10);
                    }
                }
            }
            q += 1;
        }
        match ob {
            None => return Some(format!("DISTINCT ON ({keys}) block has no ORDER BY: `{}`", block.chars().take(160).collect::<String>())),
            Some(o) => {
                let tail = &block[o..];
                let tail = tail.split(" LIMIT ").next().unwrap_or(tail).split(" OFFSET ").next().unwrap_or(tail);
                let norder = top_level_pieces(tail);
                if norder < nkeys || (need_sort && norder <= nkeys) {
                    return Some(format!("DISTINCT ON ({keys}) block is ordered by `{tail}` only"));
                }
                // the DISTINCT ON expressions must be the left-most ORDER BY expressions (in any order)
                let strip = |e: &str| e.trim().trim_end_matches(" DESC").trim_end_matches(" ASC").trim().to_string();
                let mut want: Vec<String> = split_top_level(keys).iter().map(|e| strip(e)).collect();
                let mut lead: Vec<String> = split_top_level(tail).iter().take(nkeys).map(|e| strip(e)).collect();
                want.sort();
                lead.sort();
                if want != lead {
                    return Some(format!("DISTINCT ON ({keys}) expressions are not the left-most ORDER BY expressions (`{tail}`)"));
                }
            }
        }
        from = j;
    }
    None
}

fn split_top_level(s: &str) -> Vec<String> {
    let (mut depth, mut cur, mut out) = (0i32, String::new(), vec![]);
    for c in s.chars() {
        match c {
            '(' => depth += 1,
            ')' => depth -= 1,
            ',' if depth == 0 => {
                out.push(cur.trim().to_string());
                cur.clear();
                continue;
            }
            _ => {}
        }
        cur.push(c);
    }
    if !cur.trim().is_empty() {
        out.push(cur.trim().to_string());
    }
    out
}

fn top_level_pieces(s: &str) -> usize {
    let (mut depth, mut n, mut any) = (0i32, 0usize, false);
    for c in s.chars() {
        match c {
            '(' => depth += 1,
            ')' => depth -= 1,
            ',' if depth == 0 => n += 1,
            _ => {}
        }
        if !c.is_whitespace() {
            any = true;
        }
    }
    if any { n + 1 } else { 0 }
}
