//! Small helpers around the prqlc public API.

use prqlc::sql::Dialect;
use prqlc::{ErrorMessages, Options, Target};

use crate::runner::{catch, PanicInfo};

pub const DIALECTS: &[(&str, Dialect)] = &[
    ("generic", Dialect::Generic),
    ("sqlite", Dialect::SQLite),
    ("postgres", Dialect::Postgres),
    ("mysql", Dialect::MySql),
    ("mssql", Dialect::MsSql),
    ("clickhouse", Dialect::ClickHouse),
    ("bigquery", Dialect::BigQuery),
    ("duckdb", Dialect::DuckDb),
    ("snowflake", Dialect::Snowflake),
    ("ansi", Dialect::Ansi),
    ("glaredb", Dialect::GlareDb),
    ("redshift", Dialect::Redshift),
];

pub fn dialect_by_name(n: &str) -> Option<Dialect> {
    DIALECTS.iter().find(|(k, _)| *k == n).map(|(_, d)| *d)
}

pub fn opts(d: Option<Dialect>) -> Options {
    Options::default()
        .no_signature()
        .no_format()
        .with_target(Target::Sql(d))
        .with_display(prqlc::DisplayOptions::Plain)
}

#[derive(Debug, Clone)]
pub enum Compiled {
    Sql(String),
    Err(Vec<String>),
    Panic(PanicInfo),
}

pub fn err_reasons(e: &ErrorMessages) -> Vec<String> {
    e.inner.iter().map(|m| m.reason.clone()).collect()
}

pub fn compile(src: &str, d: Option<Dialect>) -> Compiled {
    let o = opts(d);
    match catch(|| prqlc::compile(src, &o)) {
        Ok(Ok(sql)) => Compiled::Sql(sql),
        Ok(Err(e)) => Compiled::Err(err_reasons(&e)),
        Err(p) => Compiled::Panic(p),
    }
}

/// like `compile`, with the default output formatting (`Options::format = true`)
pub fn compile_formatted(src: &str, d: Option<Dialect>) -> Compiled {
    let mut o = opts(d);
    o.format = true;
    match catch(|| prqlc::compile(src, &o)) {
        Ok(Ok(sql)) => Compiled::Sql(sql),
        Ok(Err(e)) => Compiled::Err(err_reasons(&e)),
        Err(p) => Compiled::Panic(p),
    }
}

/// short, stable class name for an error reason (digits and quoted names removed)
pub fn reason_class(r: &str) -> String {
    let mut out = String::new();
    let mut in_tick = false;
    for c in r.chars().take(80) {
        if c == '`' {
            in_tick = !in_tick;
            out.push('`');
            continue;
        }
        if in_tick {
            continue;
        }
        if c.is_ascii_digit() {
            continue;
        }
        if c == '\n' {
            break;
        }
        out.push(c);
    }
    out
}

/// Compilation of some programs is not deterministic (finding C11-column-order-hash-dependent).
/// Two computations are reported as different only if repeated evaluation of each yields
/// disjoint sets of outputs.
pub fn genuinely_different(a: &dyn Fn() -> String, b: &dyn Fn() -> String) -> bool {
    let mut sa: Vec<String> = vec![];
    let mut sb: Vec<String> = vec![];
    for _ in 0..10 {
        let x = a();
        if !sa.contains(&x) {
            sa.push(x);
        }
        let y = b();
        if !sb.contains(&y) {
            sb.push(y);
        }
    }
    !sa.iter().any(|x| sb.contains(x))
}

/// sources of the repository's integration queries (small seed corpus of real programs)
pub fn repo_queries() -> Vec<String> {
    let mut v = vec![];
    let dir = std::path::Path::new("/repo/prqlc/prqlc/tests/integration/queries");
    if let Ok(rd) = std::fs::read_dir(dir) {
        let mut files: Vec<_> = rd.filter_map(|e| e.ok().map(|e| e.path())).collect();
        files.sort();
        for f in files {
            if f.extension().map(|e| e == "prql").unwrap_or(false) {
                if let Ok(s) = std::fs::read_to_string(&f) {
                    v.push(s);
                }
            }
        }
    }
    v
}
