pub mod known;
pub mod model;
pub mod util;
pub mod rqcheck;
pub mod runner;
pub mod sqlbind;
pub mod tape;

pub mod prop;
pub mod fuzzglue;
pub mod fuzzrun;

use std::path::PathBuf;

pub fn verif_dir() -> PathBuf {
    std::env::var("VERIF_DIR")
        .map(PathBuf::from)
        .unwrap_or_else(|_| PathBuf::from("/verif"))
}
