//! Choice tape: the single source of randomness for every generator.
//!
//! A generator is a *decoder* from a tape of u16 words. proptest (or libFuzzer)
//! supplies and shrinks the tape; an exhausted tape yields 0, and alternatives are
//! always ordered simplest-first, so shrinking the tape (shorter / smaller words)
//! shrinks the decoded case.

pub struct Tape<'a> {
    data: &'a [u16],
    pos: usize,
}

impl<'a> Tape<'a> {
    pub fn new(data: &'a [u16]) -> Self {
        Tape { data, pos: 0 }
    }

    pub fn word(&mut self) -> u16 {
        let w = self.data.get(self.pos).copied().unwrap_or(0);
        self.pos += 1;
        w
    }

    pub fn exhausted(&self) -> bool {
        self.pos >= self.data.len()
    }

    pub fn consumed(&self) -> usize {
        self.pos
    }

    /// Uniform-ish in 0..n, monotone in the word (never `%`).
    pub fn choose(&mut self, n: usize) -> usize {
        if n <= 1 {
            // still consume a word so that structure is stable under shrinking
            let _ = self.word();
            return 0;
        }
        let w = self.word() as u64;
        ((w * n as u64) >> 16) as usize
    }

    /// Inclusive range.
    pub fn range(&mut self, lo: i64, hi: i64) -> i64 {
        debug_assert!(lo <= hi);
        lo + self.choose((hi - lo + 1) as usize) as i64
    }

    /// true with probability num/den; false is the "simple" value.
    pub fn chance(&mut self, num: u32, den: u32) -> bool {
        let w = self.word() as u64;
        // true for the top num/den fraction of the word range
        w * den as u64 >= (den as u64 - num as u64) * 65536
    }

    pub fn pick<'b, T>(&mut self, xs: &'b [T]) -> &'b T {
        &xs[self.choose(xs.len())]
    }

    /// Weighted choice; index 0 should be the simplest alternative.
    pub fn weighted(&mut self, ws: &[u32]) -> usize {
        let total: u64 = ws.iter().map(|w| *w as u64).sum();
        if total == 0 {
            let _ = self.word();
            return 0;
        }
        let w = self.word() as u64;
        let mut x = (w * total) >> 16;
        for (i, wt) in ws.iter().enumerate() {
            if x < *wt as u64 {
                return i;
            }
            x -= *wt as u64;
        }
        ws.len() - 1
    }
}

pub fn bytes_to_tape(b: &[u8]) -> Vec<u16> {
    b.chunks(2)
        .map(|c| (c[0] as u16) | ((*c.get(1).unwrap_or(&0) as u16) << 8))
        .collect()
}
