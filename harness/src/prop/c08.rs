//! C08 — literal values reach the database unchanged and cannot alter the statement.

use serde::{Deserialize, Serialize};
use serde_json::{json, Value};
use sqlparser::tokenizer::{Token, Tokenizer};

use crate::known::Known;
use crate::model::ast::{Column, Db, Table};
use crate::model::exec;
use crate::model::val::{Ty, Val};
use crate::runner::{hash_of, Ctx, Outcome, Verdict};
use crate::sqlbind::dialect_for;
use crate::tape::Tape;
use crate::util::{self, Compiled, DIALECTS};

#[derive(Clone, Debug, Serialize, Deserialize)]
pub enum Lit {
    /// intended value, PRQL spelling
    Str { value: String, spelling: String, form: String },
    Int { value: i64, spelling: String },
    Float { value: f64, spelling: String },
    Bool { value: bool },
}

#[derive(Clone, Debug, Serialize, Deserialize)]
pub struct Case {
    pub lit: Lit,
    /// through `select {v = lit}` or through a relation literal `from [{v = lit}]`
    pub relation_literal: bool,
}

pub const F_BACKSLASH: &str = "C08-backslash-in-backslash-escaping-dialects";
pub const F_NUL: &str = "C08-nul-character";
pub const F_FORMAT_BACKSLASH: &str = "C08-formatter-rewrites-literal-with-backslash";
pub const F_PRE_ESCAPED: &str = "C08-quote-sequences-treated-as-already-escaped";

fn pre_escaped(v: &str) -> bool {
    v.contains("''") || v.contains("\\'")
}

fn attribute_value(value: &str, known: &Known) -> Option<Verdict> {
    if pre_escaped(value) && known.is_open(F_PRE_ESCAPED) {
        return Some(Verdict::Known(F_PRE_ESCAPED.into(), "value contains two quotes in a row or backslash + quote".into()));
    }
    if value.contains('\0') && known.is_open(F_NUL) {
        return Some(Verdict::Known(F_NUL.into(), "string containing NUL".into()));
    }
    None
}

const HAZ: &[&str] = &[
    "'", "\"", "\\", "`", "\n", "\r", "\t", "--", "/*", "*/", ";", "{", "}", "{{", "$", "%", "_", "\0", "😀", "é", "e\u{301}",
    "\r\n", " \n", "\t\n", " \r\n", "''", "\"\"", "\"\"\"\"", "''''", "a\"\"b", "\" \"\"", "\\'", "\\\\", "' OR 1=1 --", "\\n", "x", " ", "a", "1", "\u{a0}", "\u{2028}", "$1", "${x}", "#", "@", "\\u{41}", "\\x41",
];

fn gen_value(t: &mut Tape) -> String {
    let n = t.choose(9);
    let mut s = String::new();
    for _ in 0..n {
        if t.chance(3, 4) {
            s.push_str(*t.pick(HAZ));
        } else {
            s.push(char::from_u32(32 + t.choose(95) as u32).unwrap_or('x'));
        }
    }
    s
}

/// encoder written from strings.md / literals.md (independent of prqlc's Display for literals)
fn spell(t: &mut Tape, v: &str) -> (String, String) {
    let has = |c: char| v.contains(c);
    let mut forms: Vec<&str> = vec!["double", "single"];
    if !v.contains("\"\"\"") && !v.ends_with('"') && !v.starts_with('"') && !v.is_empty() {
        forms.push("triple-double");
    }
    if !v.contains("'''") && !v.ends_with('\'') && !v.starts_with('\'') && !v.is_empty() {
        forms.push("triple-single");
    }
    // five quotes: shorter runs of the same quote may occur inside
    if !v.contains("\"\"\"\"\"") && !v.ends_with('"') && !v.starts_with('"') && !v.is_empty() {
        forms.push("quint-double");
    }
    if !v.contains("'''''") && !v.ends_with('\'') && !v.starts_with('\'') && !v.is_empty() {
        forms.push("quint-single");
    }
    if !has('"') && !has('\'') && !has('\n') && !has('\r') {
        forms.push("raw");
    }
    forms.push("fstring");
    if !v.contains("\"\"\"") && !v.ends_with('"') && !v.starts_with('"') && !v.is_empty() {
        forms.push("fstring-triple");
    }
    let form = *t.pick(&forms);
    let esc = |q: char, braces: bool| -> String {
        let mut o = String::new();
        for c in v.chars() {
            match c {
                '\\' => o.push_str("\\\\"),
                '\n' => o.push_str("\\n"),
                '\r' => o.push_str("\\r"),
                '\t' => o.push_str("\\t"),
                '\0' => o.push_str("\\u{0}"),
                '{' if braces => o.push_str("{{"),
                '}' if braces => o.push_str("}}"),
                c if c == q => {
                    o.push('\\');
                    o.push(c)
                }
                c => o.push(c),
            }
        }
        o
    };
    let s = match form {
        "double" => format!("\"{}\"", esc('"', false)),
        "single" => format!("'{}'", esc('\'', false)),
        "triple-double" => format!("\"\"\"{}\"\"\"", esc('\u{1}', false)),
        "triple-single" => format!("'''{}'''", esc('\u{1}', false)),
        "quint-double" => format!("\"\"\"\"\"{}\"\"\"\"\"", esc('\u{1}', false)),
        "quint-single" => format!("'''''{}'''''", esc('\u{1}', false)),
        "fstring-triple" => format!("f\"\"\"{}\"\"\"", esc('\u{1}', true)),
        "raw" => format!("r\"{v}\""),
        _ => format!("f\"{}\"", esc('"', true)),
    };
    (s, form.to_string())
}

pub fn gen_case(t: &mut Tape) -> Case {
    let relation_literal = t.chance(1, 5);
    let lit = match t.weighted(&[8, 3, 3, 1]) {
        0 => {
            let value = gen_value(t);
            let (spelling, form) = spell(t, &value);
            Lit::Str { value, spelling, form }
        }
        1 => {
            let value: i64 = match t.choose(8) {
                0 => t.range(0, 9),
                1 => t.range(0, 1_000_000),
                2 => i64::MAX - t.range(0, 3),
                3 => (t.word() as i64) << t.choose(40),
                4 => 0,
                _ => t.range(0, 70000),
            };
            let spelling = match t.choose(6) {
                0 if value >= 1000 => {
                    // underscores
                    let s = value.to_string();
                    let mut o = String::new();
                    for (i, c) in s.chars().enumerate() {
                        if i > 0 && (s.len() - i) % 3 == 0 {
                            o.push('_');
                        }
                        o.push(c);
                    }
                    o
                }
                1 if value < (1i64 << 47) => format!("0x{value:x}"),
                2 if value < (1i64 << 35) => format!("0o{value:o}"),
                3 if value < (1i64 << 31) => format!("0b{value:b}"),
                _ => value.to_string(),
            };
            Lit::Int { value, spelling }
        }
        2 => {
            let mant = t.range(0, 99999) as f64;
            let (value, spelling) = match t.choose(8) {
                6 | 7 => {
                    // an integer-looking literal beyond the i64 range denotes that number (as a float)
                    let mut s = String::from(*t.pick(&["9223372036854775808", "10000000000000000000", "18446744073709551615", "9223372036854775807"]));
                    if t.chance(1, 2) {
                        s = format!("{}{}", 1 + t.choose(9), (0..(19 + t.choose(6))).map(|_| char::from(b'0' + t.choose(10) as u8)).collect::<String>());
                    }
                    let v = s.parse::<f64>().unwrap_or(0.0);
                    if s.parse::<i64>().is_ok() {
                        (v, format!("{s}.0"))
                    } else if t.chance(1, 3) {
                        // with underscores
                        let mut o = String::new();
                        for (i, c) in s.chars().enumerate() {
                            if i > 0 && (s.len() - i) % 3 == 0 {
                                o.push('_');
                            }
                            o.push(c);
                        }
                        (v, o)
                    } else {
                        (v, s)
                    }
                }
                0 => {
                    let v = mant / 100.0;
                    (v, format!("{v:?}"))
                }
                1 => {
                    let e = t.range(-20, 20);
                    let s = format!("{}e{}", mant / 1000.0, e);
                    (s.parse::<f64>().unwrap_or(0.0), s)
                }
                2 => {
                    let s = format!("{}.5e+{}", t.range(1, 9), t.range(0, 300));
                    (s.parse::<f64>().unwrap_or(0.0), s)
                }
                3 => {
                    let s = format!("1_000.000_{}", t.range(1, 9));
                    (s.replace('_', "").parse::<f64>().unwrap_or(0.0), s)
                }
                4 => {
                    let s = format!("{}.{}E-{}", t.range(0, 9), t.range(0, 999), t.range(0, 300));
                    (s.parse::<f64>().unwrap_or(0.0), s)
                }
                _ => {
                    let v = 0.1 + mant;
                    (v, format!("{v:?}"))
                }
            };
            Lit::Float { value, spelling }
        }
        _ => Lit::Bool { value: t.chance(1, 2) },
    };
    // an f-string is an expression, not a literal: relation literals accept literals only
    let relation_literal = relation_literal && !matches!(&lit, Lit::Str { form, .. } if form.starts_with("fstring"));
    Case { lit, relation_literal }
}

fn program(c: &Case, lit_text: &str) -> String {
    if c.relation_literal {
        format!("from [{{v = {lit_text}}}]\n")
    } else {
        format!("from one | select {{v = {lit_text}}}\n")
    }
}

fn db_one() -> Db {
    Db {
        tables: vec![Table {
            name: "one".into(),
            cols: vec![Column { name: "id".into(), ty: Ty::Int }],
            rows: vec![vec![Val::Int(1)]],
        }],
    }
}

fn tokens(sql: &str, dialect: &str) -> Result<Vec<Token>, String> {
    let d = dialect_for(dialect);
    Tokenizer::new(&*d, sql)
        .with_unescape(true)
        .tokenize()
        .map(|v| v.into_iter().filter(|t| !matches!(t, Token::Whitespace(_))).collect())
        .map_err(|e| e.to_string())
}

fn string_of(t: &Token) -> Option<&String> {
    match t {
        Token::SingleQuotedString(s)
        | Token::DoubleQuotedString(s)
        | Token::TripleSingleQuotedString(s)
        | Token::EscapedStringLiteral(s)
        | Token::NationalStringLiteral(s)
        | Token::UnicodeStringLiteral(s) => Some(s),
        _ => None,
    }
}

pub fn check(c: &Case, known: &Known) -> Outcome {
    let (spelling, hazardous) = match &c.lit {
        Lit::Str { value, spelling, .. } => (
            spelling.clone(),
            value.chars().any(|ch| "'\"\\`\n\r\t-/*;{}$%_\0".contains(ch) || !ch.is_ascii()),
        ),
        Lit::Int { value, spelling } => (spelling.clone(), spelling != &value.to_string()),
        Lit::Float { spelling, .. } => (spelling.clone(), spelling.contains(['e', 'E', '_'])),
        Lit::Bool { value } => (value.to_string(), false),
    };
    let src = program(c, &spelling);
    let mut out = Outcome::pass();
    out.key = hash_of(&src);
    out.nontrivial = hazardous;
    let form = match &c.lit {
        Lit::Str { form, .. } => form.clone(),
        Lit::Int { .. } => "int".into(),
        Lit::Float { .. } => "float".into(),
        Lit::Bool { .. } => "bool".into(),
    };
    out.classes.push(format!("form={form}"));
    out.sample = Some(json!({"prql": src}));
    let db = db_one();
    // oracle 1: the value SQLite returns
    for target in ["sqlite", "generic"] {
        let sql = match util::compile(&src, util::dialect_by_name(target)) {
            Compiled::Sql(s) => s,
            Compiled::Err(r) => {
                // a literal the documented syntax admits must compile
                if let Lit::Float { value, .. } = &c.lit {
                    if !value.is_finite() {
                        return Outcome::skip("non-finite float").class("non_finite");
                    }
                }
                return Outcome::fail(
                    "a literal in documented syntax is rejected",
                    json!({"source": src, "error": r, "literal": c.lit}),
                );
            }
            Compiled::Panic(p) => return Outcome::skip(&format!("compiler_panic {}:{}", p.file, p.line)).class("compiler_panic"),
        };
        let res = match exec::run(&db, &sql) {
            Ok(r) => r,
            Err(e) => {
                let mut o = Outcome::fail(
                    "emitted SQL for a literal fails on SQLite",
                    json!({"source": src, "sql": sql, "error": e.msg(), "literal": c.lit}),
                );
                if let Lit::Str { value, .. } = &c.lit {
                    if let Some(v) = attribute_value(value, known) {
                        o.verdict = v;
                    }
                }
                return o;
            }
        };
        let got = res.rows.first().and_then(|r| r.first()).cloned().unwrap_or(Val::Null);
        let ok = match (&c.lit, &got) {
            (Lit::Str { value, .. }, Val::Text(g)) => g == value,
            (Lit::Int { value, .. }, Val::Int(g)) => g == value,
            // SQLite's own decimal-to-double conversion is not correctly rounded for extreme exponents:
            // allow a few ulps
            (Lit::Float { value, .. }, Val::Float(g)) => g == value || ((g - value).abs() <= 1e-14 * value.abs()),
            (Lit::Float { value, .. }, Val::Int(g)) => (*g as f64) == *value,
            (Lit::Bool { value }, Val::Int(g)) => (*g != 0) == *value,
            _ => false,
        };
        if !ok {
            let mut o = Outcome::fail(
                "the value returned by SQLite is not the literal's value",
                json!({"source": src, "sql": sql, "target": target, "literal": c.lit, "got": got.show()}),
            );
            if let Lit::Str { value, .. } = &c.lit {
                if let Some(v) = attribute_value(value, known) {
                    o.verdict = v;
                }
            }
            return o;
        }
    }
    // oracle 1b: the same with the default output formatting switched on (the formatter re-lays
    // out the statement text and must not touch the inside of literals)
    for target in ["sqlite", "generic"] {
        let Compiled::Sql(sql) = util::compile_formatted(&src, util::dialect_by_name(target)) else { continue };
        let Ok(res) = exec::run(&db, &sql) else { continue };
        let got = res.rows.first().and_then(|r| r.first()).cloned().unwrap_or(Val::Null);
        let ok = match (&c.lit, &got) {
            (Lit::Str { value, .. }, Val::Text(g)) => g == value,
            (Lit::Str { .. }, _) => false,
            _ => true,
        };
        if !ok {
            let mut o = Outcome::fail(
                "with output formatting on, the value returned by SQLite is not the literal's value",
                json!({"source": src, "sql": sql, "target": target, "literal": c.lit, "got": got.show()}),
            );
            if let Lit::Str { value, .. } = &c.lit {
                if let Some(v) = attribute_value(value, known) {
                    o.verdict = v;
                } else if value.contains('\\') && known.is_open(F_FORMAT_BACKSLASH) {
                    o.verdict = Verdict::Known(F_FORMAT_BACKSLASH.into(), "formatted output, literal containing a backslash".into());
                }
            }
            return o;
        }
    }
    // oracle 2: for every dialect, the token structure equals that of an innocuous literal and
    // the one string token unescapes to the value
    if let Lit::Str { value, .. } = &c.lit {
        let plain = program(c, "'x'");
        for (dn, d) in DIALECTS {
            let (Compiled::Sql(sql), Compiled::Sql(sql0)) = (util::compile(&src, Some(*d)), util::compile(&plain, Some(*d))) else {
                continue;
            };
            let attribute = |what: &str, detail: Value| -> Outcome {
                let mut o = Outcome::fail(what, detail);
                if let Some(v) = attribute_value(value, known) {
                    o.verdict = v;
                } else if *dn == "bigquery" && value.contains('\'') && known.is_open("C08-bigquery-quote-doubling") {
                    o.verdict = Verdict::Known("C08-bigquery-quote-doubling".into(), "single quote in a string literal under bigquery".into());
                } else if value.contains('\\') && known.is_open(F_BACKSLASH) {
                    // only for dialects whose tokenizer treats backslash as an escape
                    o.verdict = Verdict::Known(F_BACKSLASH.into(), format!("backslash in a string literal under {dn}"));
                } else if value.contains('\0') && known.is_open(F_NUL) {
                    o.verdict = Verdict::Known(F_NUL.into(), "string containing NUL".into());
                }
                o
            };
            let (t1, t0) = match (tokens(&sql, dn), tokens(&sql0, dn)) {
                (Ok(a), Ok(b)) => (a, b),
                (Err(e), _) => {
                    return attribute(
                        &format!("the literal breaks tokenisation of the statement under {dn}"),
                        json!({"source": src, "dialect": dn, "sql": sql, "error": e}),
                    )
                }
                _ => continue,
            };
            let same_shape = t1.len() == t0.len()
                && t1.iter().zip(&t0).all(|(a, b)| {
                    if string_of(a).is_some() && string_of(b).is_some() {
                        true
                    } else {
                        a == b
                    }
                });
            if !same_shape {
                return attribute(
                    &format!("the literal changes the token structure of the statement under {dn}"),
                    json!({"source": src, "dialect": dn, "sql": sql, "sql_with_plain_literal": sql0}),
                );
            }
            // every string token that differs from the plain statement must be the value
            // (concatenation pieces of f-strings are not generated here: one token)
            let vals: Vec<&String> = t1.iter().zip(&t0).filter(|(a, b)| a != b).filter_map(|(a, _)| string_of(a)).collect();
            if vals.len() == 1 && vals[0] != value {
                return attribute(
                    &format!("the string token does not unescape to the literal's value under {dn}"),
                    json!({"source": src, "dialect": dn, "sql": sql, "value": value, "token_value": vals[0]}),
                );
            }
        }
    }
    out
}

pub fn replay_any(name: &str, case: &Value, known: &Known) -> Option<Outcome> {
    if name == "fstring-compositions" {
        let c: FCase = serde_json::from_value(case.clone()).ok()?;
        return Some(fcheck(&c, known));
    }
    let c: Case = serde_json::from_value(case.clone()).ok()?;
    Some(check(&c, known))
}

pub fn run(ctx: &Ctx) -> i32 {
    ctx.run_replays(|c, case| replay_any(c, case, &ctx.known));
    ctx.shrink_iters.store(500, std::sync::atomic::Ordering::Relaxed);
    ctx.tape_search("value-first-literals", ctx.n(20_000, 1_500_000), 60, gen_case, |c| check(c, &ctx.known));
    ctx.tape_search("fstring-compositions", ctx.n(6_000, 400_000), 80, gen_fcase, |c| fcheck(c, &ctx.known));
    ctx.finish(
        "value first: a Unicode string biased to hazardous pieces (quotes, backslash, backtick, newline, CR, tab, --, /* */, ;, braces, $, %, _, NUL, non-BMP, combining marks, injection idioms) is spelled in one of the documented forms (double / single / triple quotes with escapes, raw string, f-string without interpolation) by an encoder written from the book; a second generator composes f-strings from literal fragments, interpolated let-bound string constants, a string passed through a function parameter and a text column (expected value = the concatenation); integers in decimal with underscores, hex, octal, binary up to i64::MAX; floats with fraction, exponent, underscores; booleans; through `select {v = <lit>}` and through a relation literal. Oracle 1 (sqlite, generic): the value SQLite returns equals the intended value (byte-exact text, exact i64, f64 within 1e-14 relative (SQLite's decimal parsing is not correctly rounded)). Oracle 2 (12 dialects): under sqlparser's tokenizer for the dialect the statement has the same token sequence as with the literal 'x' and the string token unescapes to the value. non-trivial = hazardous character / non-canonical spelling; distinct = source",
        &["date / time literals are covered for syntax by C07 only", "sqlparser's per-dialect tokenizer is the model of each engine's lexical rules"],
    )
}

// ---------------------------------------------------------------------------------------
// f-string compositions: fragments, interpolated string constants (let / function parameter)
// and a text column; the value is the concatenation

#[derive(Clone, Debug, Serialize, Deserialize)]
pub enum Part {
    /// literal text between placeholders
    Frag(String),
    /// `{kN}`: a let-bound string constant
    Const(usize),
    /// `{p}`: the parameter of the wrapping function, bound to a string literal at the call
    Param,
    /// `{s}`: the text column of table `one`
    Col,
}

#[derive(Clone, Debug, Serialize, Deserialize)]
pub struct FCase {
    /// (value, PRQL spelling) of the constants k0, k1, ...
    pub consts: Vec<(String, String)>,
    pub param: Option<(String, String)>,
    pub parts: Vec<Part>,
}

const COL_VALUE: &str = "S\u{2603}'c";

fn fesc(v: &str) -> String {
    let mut o = String::new();
    for c in v.chars() {
        match c {
            '\\' => o.push_str("\\\\"),
            '\n' => o.push_str("\\n"),
            '\r' => o.push_str("\\r"),
            '\t' => o.push_str("\\t"),
            '{' => o.push_str("{{"),
            '}' => o.push_str("}}"),
            '"' => o.push_str("\\\""),
            c => o.push(c),
        }
    }
    o
}

fn plain_spell(t: &mut Tape, v: &str) -> String {
    // double / single quoted only (the other forms are the first sub-check's subject)
    let q = if t.chance(1, 2) { '"' } else { '\'' };
    let mut o = String::new();
    o.push(q);
    for c in v.chars() {
        match c {
            '\\' => o.push_str("\\\\"),
            '\n' => o.push_str("\\n"),
            '\r' => o.push_str("\\r"),
            '\t' => o.push_str("\\t"),
            c if c == q => {
                o.push('\\');
                o.push(c)
            }
            c => o.push(c),
        }
    }
    o.push(q);
    o
}

fn small_value(t: &mut Tape) -> String {
    let mut v = gen_value(t);
    // NUL and the "already escaped" quote sequences are recorded findings of the first sub-check
    v = v.replace('\0', "0");
    if v.chars().count() > 6 {
        v = v.chars().take(6).collect();
    }
    v
}

pub fn gen_fcase(t: &mut Tape) -> FCase {
    let nconst = t.choose(3);
    let consts: Vec<(String, String)> = (0..nconst)
        .map(|_| {
            let v = small_value(t);
            let s = plain_spell(t, &v);
            (v, s)
        })
        .collect();
    let param = if t.chance(1, 3) {
        let v = small_value(t);
        let s = plain_spell(t, &v);
        Some((v, s))
    } else {
        None
    };
    let n = 1 + t.choose(5);
    let mut parts = vec![];
    for _ in 0..n {
        let k = t.weighted(&[4, if consts.is_empty() { 0 } else { 5 }, if param.is_some() { 3 } else { 0 }, 2]);
        parts.push(match k {
            0 => Part::Frag(small_value(t)),
            1 => Part::Const(t.choose(consts.len())),
            2 => Part::Param,
            _ => Part::Col,
        });
    }
    if !parts.iter().any(|p| !matches!(p, Part::Frag(_))) {
        parts.push(Part::Col);
    }
    FCase { consts, param, parts }
}

fn fprogram(c: &FCase) -> String {
    let mut body = String::new();
    for p in &c.parts {
        match p {
            Part::Frag(v) => body.push_str(&fesc(v)),
            Part::Const(i) => body.push_str(&format!("{{k{i}}}")),
            Part::Param => body.push_str("{p}"),
            // inside the function the column arrives through the second parameter
            Part::Col => body.push_str(if c.param.is_some() { "{q}" } else { "{s}" }),
        }
    }
    let mut src = String::new();
    for (i, (_, s)) in c.consts.iter().enumerate() {
        src.push_str(&format!("let k{i} = {s}\n"));
    }
    if let Some((_, ps)) = &c.param {
        src.push_str(&format!("let g = p q -> f\"{body}\"\nfrom one | select {{v = (g {ps} s)}}\n"));
    } else {
        src.push_str(&format!("from one | select {{v = f\"{body}\"}}\n"));
    }
    src
}

fn fexpected(c: &FCase, col: &str) -> String {
    let mut o = String::new();
    for p in &c.parts {
        match p {
            Part::Frag(v) => o.push_str(v),
            Part::Const(i) => o.push_str(&c.consts[*i].0),
            Part::Param => o.push_str(&c.param.as_ref().map(|p| p.0.clone()).unwrap_or_default()),
            Part::Col => o.push_str(col),
        }
    }
    o
}

pub fn fcheck(c: &FCase, known: &Known) -> Outcome {
    let src = fprogram(c);
    let mut out = Outcome::pass();
    out.key = hash_of(&src);
    let interpolated_literals = c.parts.iter().filter(|p| matches!(p, Part::Const(_) | Part::Param)).count();
    out.nontrivial = interpolated_literals >= 1 && c.parts.len() >= 2;
    out.classes.push(format!("interpolated_literals={}", interpolated_literals.min(3)));
    out.sample = Some(json!({"prql": src}));
    let db = Db {
        tables: vec![Table {
            name: "one".into(),
            cols: vec![Column { name: "id".into(), ty: Ty::Int }, Column { name: "s".into(), ty: Ty::Text }],
            rows: vec![vec![Val::Int(1), Val::Text(COL_VALUE.into())]],
        }],
    };
    let want = fexpected(c, COL_VALUE);
    let all_values: Vec<&String> = c
        .consts
        .iter()
        .map(|x| &x.0)
        .chain(c.param.iter().map(|x| &x.0))
        .chain(c.parts.iter().filter_map(|p| if let Part::Frag(v) = p { Some(v) } else { None }))
        .collect();
    let attribute = |o: &mut Outcome, dn: &str| {
        // the recorded findings about single literal values apply to each piece and to the
        // places where two pieces meet
        if let Some(v) = all_values.iter().find_map(|v| attribute_value(v, known)).or_else(|| attribute_value(&want, known)) {
            o.verdict = v;
        } else if dn == "bigquery" && want.contains('\'') && known.is_open("C08-bigquery-quote-doubling") {
            o.verdict = Verdict::Known("C08-bigquery-quote-doubling".into(), "single quote in a string literal under bigquery".into());
        } else if want.contains('\\') && !matches!(dn, "sqlite" | "generic") && known.is_open(F_BACKSLASH) {
            o.verdict = Verdict::Known(F_BACKSLASH.into(), format!("backslash in a string literal under {dn}"));
        }
    };
    // oracle 1: the value SQLite returns
    for target in ["sqlite", "generic"] {
        let sql = match util::compile(&src, util::dialect_by_name(target)) {
            Compiled::Sql(s) => s,
            Compiled::Err(r) => return Outcome::fail("an f-string over string constants is rejected", json!({"source": src, "error": r})),
            Compiled::Panic(p) => return Outcome::skip(&format!("compiler_panic {}:{}", p.file, p.line)).class("compiler_panic"),
        };
        let got = match exec::run(&db, &sql) {
            Ok(r) => r.rows.first().and_then(|r| r.first()).cloned().unwrap_or(Val::Null),
            Err(e) => {
                let mut o = Outcome::fail("emitted SQL for an f-string fails on SQLite", json!({"source": src, "sql": sql, "error": e.msg()}));
                attribute(&mut o, target);
                return o;
            }
        };
        if !matches!(&got, Val::Text(g) if *g == want) {
            let mut o = Outcome::fail(
                "the value of an f-string is not the concatenation of its fragments and interpolated values",
                json!({"source": src, "sql": sql, "target": target, "expected": want, "got": got.show()}),
            );
            attribute(&mut o, target);
            return o;
        }
    }
    // oracle 2: every dialect: the select item is CONCAT(a, b, ..) / a || b || .. / one token, over
    // string tokens and the column; its concatenation is the value
    for (dn, d) in DIALECTS {
        let Compiled::Sql(sql) = util::compile(&src, Some(*d)) else { continue };
        let toks = match tokens(&sql, dn) {
            Ok(t) => t,
            Err(e) => {
                let mut o = Outcome::fail(
                    &format!("an f-string breaks tokenisation of the statement under {dn}"),
                    json!({"source": src, "dialect": dn, "sql": sql, "error": e}),
                );
                attribute(&mut o, dn);
                return o;
            }
        };
        // tokens of the item: after SELECT up to `AS v`
        let start = toks.iter().position(|t| matches!(t, Token::Word(w) if w.value.eq_ignore_ascii_case("select")));
        let end = toks.iter().position(|t| matches!(t, Token::Word(w) if w.value.eq_ignore_ascii_case("as")));
        let (Some(a), Some(b)) = (start, end) else {
            out.classes.push(format!("shape_not_recognised:{dn}"));
            continue;
        };
        let mut value = String::new();
        let mut recognised = true;
        for t in &toks[a + 1..b] {
            match t {
                Token::Word(w) if w.value.eq_ignore_ascii_case("concat") => {}
                Token::Word(w) if w.value == "s" => value.push_str(COL_VALUE),
                Token::LParen | Token::RParen | Token::Comma | Token::StringConcat => {}
                t if string_of(t).is_some() => value.push_str(string_of(t).unwrap()),
                _ => recognised = false,
            }
        }
        if !recognised {
            out.classes.push(format!("shape_not_recognised:{dn}"));
            continue;
        }
        if value != want {
            let mut o = Outcome::fail(
                &format!("the pieces of an f-string do not concatenate to its value under {dn}"),
                json!({"source": src, "dialect": dn, "sql": sql, "expected": want, "pieces_concatenate_to": value}),
            );
            attribute(&mut o, dn);
            return o;
        }
    }
    out
}
