//! C15 — staged compilation through JSON equals one-shot compile.

use serde::{Deserialize, Serialize};
use serde_json::{json, Value};

use crate::known::Known;
use crate::model::gen::{Bias, GenCfg};
use crate::model::print;
use crate::prop::{c01, c16};
use crate::runner::{catch, hash_of, Ctx, Outcome};
use crate::tape::Tape;
use crate::util::{self, DIALECTS};

#[derive(Clone, Debug, Serialize, Deserialize)]
pub struct Case {
    pub source: String,
    /// index into DIALECTS, or None for "no option"
    pub dialect: Option<usize>,
    pub format: bool,
}

pub fn gen_case(t: &mut Tape) -> Case {
    let mut cfg = GenCfg::general();
    cfg.bias = *t.pick(&[Bias::General, Bias::Frame, Bias::Window, Bias::Sort]);
    cfg.hazards = c16::ALL_HAZARDS.to_vec();
    let mut c = c01::gen_case(t, cfg);
    c.prog.surface.redundant_parens = t.chance(1, 3);
    let mut src = print::program(&c.prog);
    if t.chance(1, 3) {
        src = crate::model::lexdecor::stretch(t, &src);
    }
    if t.chance(1, 2) {
        src = crate::model::lexdecor::decorate(t, &src);
        if t.chance(1, 3) {
            src = crate::model::lexdecor::crlf(&src);
        }
    }
    // numbers at the edges of what a JSON reader may keep exact (2^53 + 1, 19-digit integers, i64::MAX,
    // floats with 17 significant digits, subnormals)
    if t.chance(1, 4) {
        const NUMS: &[&str] = &[
            "9007199254740993", "1727181000123456789", "9223372036854775807", "4611686018427387905", "9007199254740992", "123456789012345678",
            "0.1", "1.7976931348623157e308", "5e-324", "2.2250738585072014e-308", "0.30000000000000004", "1e22", "123456789.12345679",
        ];
        let (a, b) = (*t.pick(NUMS), *t.pick(NUMS));
        src = format!("{} | derive {{zn1 = {a}, zn2 = {b}}} | filter zn1 != {b}\n", src.trim_end());
    }
    let dialect = if t.chance(1, 8) { None } else { Some(t.choose(DIALECTS.len())) };
    match t.choose(8) {
        0 => src = format!("prql target:sql.{}\n\n{src}", DIALECTS[t.choose(DIALECTS.len())].0),
        1 => src = format!("prql version:\"0.13\"\n\n{src}"),
        // an erroneous program: both paths must fail alike
        2 => src = src.replacen("select {", "select {zzz_unknown, ", 1),
        3 => src = src.replacen("filter ", "filter 1 + ", 1),
        _ => {}
    }
    Case {
        source: src,
        dialect,
        format: t.chance(1, 4),
    }
}

fn errs(e: &prqlc::ErrorMessages) -> String {
    let v: Vec<Value> = e
        .inner
        .iter()
        .map(|m| json!({"kind": format!("{:?}", m.kind), "code": m.code, "reason": m.reason, "hints": m.hints, "span": m.span.map(|s| format!("{s:?}"))}))
        .collect();
    format!("ERR {}", Value::Array(v))
}

fn opts(case: &Case) -> prqlc::Options {
    let mut o = util::opts(case.dialect.map(|i| DIALECTS[i].1));
    o.format = case.format;
    o
}

fn one_shot(case: &Case) -> String {
    match catch(|| prqlc::compile(&case.source, &opts(case))) {
        Ok(Ok(s)) => format!("OK {s}"),
        Ok(Err(e)) => errs(&e),
        Err(p) => format!("PANIC {}:{}", p.file, p.line),
    }
}

/// source -> PL -> JSON -> PL -> RQ -> JSON -> RQ -> SQL, checking both round trips on the way
fn staged(case: &Case, rt_fail: &mut Option<(String, Value)>, stats: &mut (usize, usize)) -> String {
    let o = opts(case);
    let r = catch(|| -> Result<String, prqlc::ErrorMessages> {
        let pl = prqlc::prql_to_pl(&case.source)?;
        let j = prqlc::json::from_pl(&pl)?;
        let pl2 = match prqlc::json::to_pl(&j) {
            Ok(p) => p,
            Err(e) => {
                *rt_fail = Some(("PL JSON does not read back".into(), json!({"error": errs(&e), "json": j.chars().take(2000).collect::<String>()})));
                return Err(e);
            }
        };
        if pl2 != pl {
            *rt_fail = Some(("PL differs after a JSON round trip".into(), json!({"json": j.chars().take(2000).collect::<String>()})));
        } else if let Ok(j2) = prqlc::json::from_pl(&pl2) {
            // compared as JSON values: named arguments are a hash map, so the member order of
            // that object may differ between two serialisations of equal trees
            if serde_json::from_str::<Value>(&j2).ok() != serde_json::from_str::<Value>(&j).ok() {
                *rt_fail = Some(("PL JSON differs after a round trip".into(), json!({})));
            }
        }
        stats.0 = j.matches("\"span\"").count();
        let rq = prqlc::pl_to_rq(pl2)?;
        let jr = prqlc::json::from_rq(&rq)?;
        let rq2 = match prqlc::json::to_rq(&jr) {
            Ok(r) => r,
            Err(e) => {
                *rt_fail = Some(("RQ JSON does not read back".into(), json!({"error": errs(&e), "json": jr.chars().take(2000).collect::<String>()})));
                return Err(e);
            }
        };
        if rq2 != rq {
            *rt_fail = Some(("RQ differs after a JSON round trip".into(), json!({"json": jr.chars().take(2000).collect::<String>()})));
        } else if let Ok(j2) = prqlc::json::from_rq(&rq2) {
            if serde_json::from_str::<Value>(&j2).ok() != serde_json::from_str::<Value>(&jr).ok() {
                *rt_fail = Some(("RQ JSON differs after a round trip".into(), json!({})));
            }
        }
        stats.1 = rq.tables.len();
        prqlc::rq_to_sql(rq2, &o)
    });
    match r {
        Ok(Ok(s)) => format!("OK {s}"),
        Ok(Err(e)) => errs(&e),
        Err(p) => format!("PANIC {}:{}", p.file, p.line),
    }
}

pub fn check(case: &Case, _known: &Known) -> Outcome {
    let mut rt_fail = None;
    let mut stats = (0, 0);
    let st = staged(case, &mut rt_fail, &mut stats);
    let mut out = Outcome::pass();
    out.key = hash_of(&(&case.source, case.dialect, case.format));
    if let Some((what, mut detail)) = rt_fail {
        detail["source"] = json!(case.source);
        return Outcome::fail(&what, detail);
    }
    let os = one_shot(case);
    if st.starts_with("PANIC") || os.starts_with("PANIC") {
        // panics are C12's subject (e.g. composing an error message over multi-byte source
        // text panics in the one-shot path only); not judged here
        return Outcome::skip("compiler_panic").class("compiler_panic");
    }
    if st != os {
        // errors of the one-shot path are composed with the source (display/location); only
        // kind, code, reason, hints and span are compared
        if util::genuinely_different(&|| one_shot(case), &|| staged(case, &mut None, &mut (0, 0))) {
            return Outcome::fail(
                "staged compilation through JSON differs from one-shot compile",
                json!({"source": case.source, "dialect": case.dialect.map(|i| DIALECTS[i].0), "format": case.format, "staged": st, "one_shot": os}),
            );
        }
        out.classes.push("nondeterministic_output_seen".into());
    }
    out.nontrivial = os.starts_with("OK") && stats.0 >= 8 && stats.1 >= 1;
    out.classes.push(if os.starts_with("OK") { "compiles" } else { "fails_alike" }.into());
    out.classes.push(format!("dialect={}", case.dialect.map(|i| DIALECTS[i].0).unwrap_or("none")));
    out.sample = Some(json!({"prql": case.source, "dialect": case.dialect.map(|i| DIALECTS[i].0), "outcome": os.chars().take(200).collect::<String>()}));
    out
}

pub fn replay_any(_c: &str, case: &Value, known: &Known) -> Option<Outcome> {
    let c: Case = serde_json::from_value(case.clone()).ok()?;
    Some(check(&c, known))
}

pub fn run(ctx: &Ctx) -> i32 {
    ctx.run_replays(|c, case| replay_any(c, case, &ctx.known));
    let mut corpus = vec![];
    for (i, s) in util::corpus_programs().into_iter().enumerate() {
        for d in [None, Some(i % DIALECTS.len()), Some((i + 5) % DIALECTS.len())] {
            corpus.push(Case { source: s.clone(), dialect: d, format: i % 2 == 0 });
        }
    }
    ctx.enumerate("repo-queries", corpus, |c| check(c, &ctx.known));
    ctx.shrink_iters.store(300, std::sync::atomic::Ordering::Relaxed);
    ctx.tape_search("generated", ctx.n(20_000, 800_000), 500, gen_case, |c| check(c, &ctx.known));
    if !ctx.quick() {
        ctx.fuzz_campaign("staged", ctx.fuzz_secs(300), 2048);
    }
    ctx.finish(
        "generated programs (every construct of the generator; with/without `prql` header; some made erroneous on purpose) and the repository's integration queries x 12 dialects / no option x format on/off: PL and RQ must survive JSON (equal value and identical re-serialisation), and source -> PL -> JSON -> PL -> RQ -> JSON -> RQ -> SQL must equal compile(source) byte for byte, or fail with equal (kind, code, reason, hints, span). non-trivial = compiles, PL has >= 8 spanned nodes and RQ >= 1 table; distinct = (source, dialect, format)",
        &["display/location of errors are not compared (the staged API has no source text)", "a difference is reported only if repeated evaluation of both paths yields disjoint outputs (compilation is not deterministic: finding C11-column-order-hash-dependent)"],
    )
}
