//! C07 — every accepted program compiles to SQL the selected dialect parses and binds;
//! C05 (all-dialect half) — result columns are exactly the final frame;
//! C09 — identifiers are referenced verbatim, generated names never capture user names.
//! All three use the binder over the re-parsed SQL (`sqlbind`).

use std::collections::HashMap;

use serde::{Deserialize, Serialize};
use serde_json::{json, Value};

use crate::known::Known;
use crate::model::ast::Db;
use crate::model::gen::{Bias, Gen, GenCfg, Names, HAZARD_NAMES};
use crate::model::print;
use crate::prop::c01;
use crate::runner::{catch, hash_of, Ctx, Outcome, Verdict};
use crate::sqlbind::{self, Parsed, Schema};
use crate::tape::Tape;
use crate::util::{self, DIALECTS};

#[derive(Clone, Debug, Serialize, Deserialize)]
pub struct Case {
    pub base: c01::Case,
    pub source: String,
}

pub const F_ANSI: &str = "C07-ansi-underscore-identifier";
pub const F_ORDER: &str = "C05-result-column-order-differs-from-frame";
pub const F_BARE_EXCLUDE: &str = "C05-exclusion-by-bare-name-after-split";
pub const F_SORT_HELPER: &str = "C05-wildcard-sort-helper-kept-with-exclude";

pub fn schema_for(db: &Db) -> Schema {
    schema_of(db, false)
}

fn schema_of(db: &Db, fold_case: bool) -> Schema {
    let mut tables = HashMap::new();
    for t in &db.tables {
        tables.insert(t.name.clone(), t.cols.iter().map(|c| c.name.clone()).collect());
    }
    Schema { tables, fold_case }
}

pub const EXTRAS: &[&str] = &[
    " | derive {zq1 = math.pi, zq2 = (1.5 | math.round 1), zq3 = (\"ab\" | text.upper)}",
    " | derive {zq4 = @2020-01-01, zq5 = (3 | as float), zq6 = (\"ab\" | text.length)}",
    " | derive {zq7 = (2 | math.pow 3), zq8 = (\"ab\" | text.starts_with \"a\"), zq9 = (\"abc\" | text.extract 1 2)}",
    " | derive {zq10 = @2020-01-01T10:00:00, zq11 = @10:30, zq12 = 2days}",
    " | derive {zq13 = (1 | in [1, 2, 3]), zq14 = (4.0 | math.sqrt), zq15 = (\"a b\" | text.replace \" \" \"_\")}",
    " | take 3..7",
    // recursive CTEs (loop), alone and followed by transforms that force further sub-queries
    " | select {zn = 1} | loop (filter zn < 4 | select {zn = zn + 1})",
    " | select {zn = 1} | loop (filter zn < 4 | select {zn = zn + 1}) | take 100 | filter zn > 1",
    " | select {zn = 1, zm = 2} | loop (filter zn < 4 | select {zn = zn + 1, zm = zm * 2}) | group {zn} (aggregate {zs = sum zm}) | derive {zt = zs + 1} | filter zt > 2",
    " | select {zn = 1} | loop (filter zn < 3 | select {zn = zn + 1}) | join zj = (from t1 | select {zid = 1} | take 5 | filter zid > 0) (zn == zj.zid)",
    " | filter true | take 5 | derive {zq16 = 1} | filter zq16 > 0",
];

pub fn gen_case(t: &mut Tape, hazard: Option<&'static str>, hazard_names: bool) -> Case {
    gen_case_cfg(t, hazard, hazard_names, false)
}

pub fn gen_case_cfg(t: &mut Tape, hazard: Option<&'static str>, hazard_names: bool, append_boost: bool) -> Case {
    let mut cfg = GenCfg::general();
    cfg.append_boost = append_boost;
    cfg.bias = *t.pick(&[Bias::General, Bias::Frame, Bias::Sort, Bias::Window]);
    if let Some(h) = hazard {
        cfg.hazards = vec![h];
    }
    let target = if t.chance(1, 2) { "generic" } else { "sqlite" }.to_string();
    if target == "generic" {
        cfg.int_divf = false;
    }
    if hazard_names {
        // naming is the subject: keep every frame known (wildcard relations have their own findings)
        cfg.allow_wild = false;
    }
    let mut g = Gen::new(t, cfg);
    if hazard_names {
        // hazardous identifiers for tables, let-tables, aliases, relation aliases and columns
        let mut pool: Vec<String> = HAZARD_NAMES.iter().map(|s| s.to_string()).collect();
        // a tape-driven shuffle
        for i in (1..pool.len()).rev() {
            let j = g.t.choose(i + 1);
            pool.swap(i, j);
        }
        let mut it = pool.into_iter();
        let mut take = |n: usize, prefix: &str| -> Vec<String> {
            (0..n)
                .map(|i| it.next().unwrap_or_else(|| format!("{prefix}{i}")))
                .collect()
        };
        let tables = take(4, "t");
        let cols = take(7, "col");
        let id = take(1, "id").pop().unwrap();
        let lets = take(3, "l");
        let rel_aliases = take(4, "r");
        let mut aliases = take(6, "c");
        aliases.extend((0..40).map(|i| format!("c{i}")));
        let mut rels = rel_aliases;
        rels.extend((0..12).map(|i| format!("r{i}")));
        g = g.with_names(Names {
            tables,
            aliases,
            rel_aliases: rels,
            id,
            cols,
            lets,
        });
    }
    let (db, prog, frame, touched) = g.gen_prog();
    let names = frame.cols.iter().map(|c| c.name.clone()).collect();
    let mut source = print::program(&prog).trim_end().to_string();
    if !hazard_names && t.chance(1, 3) {
        source.push_str(*t.pick(EXTRAS));
    } else if !hazard_names && t.chance(1, 5) {
        // an array whose elements are columns of the frame, used after a step that forces a
        // sub-query, by a filter / derive that is the only user of those columns
        let uniq: Vec<&String> = frame
            .cols
            .iter()
            .filter_map(|c| c.name.as_ref())
            .filter(|n| frame.cols.iter().filter(|c| c.name.as_ref() == Some(*n)).count() == 1)
            .collect();
        if uniq.len() >= 2 && frame.wild_rels.is_empty() {
            let a = crate::model::print::ident(uniq[t.choose(uniq.len())]);
            let b = crate::model::print::ident(uniq[t.choose(uniq.len())]);
            // (a take far from its sort is a recorded finding: the take is only added to unsorted programs)
            let split = if source.contains("sort") { "" } else { *t.pick(&[" | take 7", " | take 2..9", "", " | filter true | take 7"]) };
            // (set operations on a sorted top carry the sort key into one operand only: the recorded
            // C01-append-pruning family; they are added to unsorted programs)
            // ... and after group / aggregate / join the bottom operand of `remove` loses its columns
            // (`SELECT FROM t1 ... EXCEPT ALL`, same family; observed, see DESIGN 10.4): plain tops only
            let plain = !["sort", "group", "aggregate", "join", "append"].iter().any(|w| source.contains(w));
            let nvar = if plain { 7 } else { 4 };
            let tail = match t.choose(nvar) {
                // set operations against a one-column relation (with and without de-duplication)
                4 => format!(" | select {{{a}}} | intersect (from t1 | select {{id}})"),
                5 => format!(" | select {{{a}}} | remove (from t1 | select {{id}})"),
                6 => format!(" | select {{{a}}} | intersect (from t1 | select {{id}}) | group {{{a}}} (take 1)"),
                0 => format!("{split} | filter (1 | in [{a}, {b}]) | select {{zq17 = 2}}"),
                1 => format!("{split} | derive {{zq18 = (0 | in [{a}, {b}])}} | select {{zq18}}"),
                2 => format!("{split} | filter ({a} | in [{b}, {a}]) | select {{zq19 = 3}}"),
                _ => format!("{split} | join zj2 = (from t1 | select {{zid = id}}) (zj2.zid | in [{a}, {b}]) | select {{zj2.zid}}"),
            };
            source.push_str(&tail);
        }
    }
    source.push('\n');
    let flags: Vec<String> = touched.iter().map(|s| s.to_string()).chain(prog.has_window().then(|| "uses_window".to_string())).collect();
    Case {
        base: c01::Case {
            db,
            prog,
            target,
            flags,
            names,
        },
        source,
    }
}

/// dialects with a column-exclusion facility (`* EXCLUDE (..)` / `* EXCEPT (..)`)
pub const HAS_EXCLUDE: &[&str] = &["duckdb", "snowflake", "bigquery"];

#[derive(PartialEq, Clone, Copy)]
pub enum Mode {
    C07,
    C05,
    C09,
}

/// expected columns from the resolver's own frame (RQ relation.columns)
fn rq_columns(rq: &prqlc::ir::rq::RelationalQuery) -> Option<Vec<Option<String>>> {
    let mut out = vec![];
    for c in &rq.relation.columns {
        match c {
            prqlc::ir::rq::RelationColumn::Single(n) => out.push(n.clone()),
            prqlc::ir::rq::RelationColumn::Wildcard => return None,
        }
    }
    Some(out)
}

pub fn check(case: &Case, known: &Known, mode: Mode, hazard: bool) -> Outcome {
    let src = &case.source;
    let schema = schema_of(&case.base.db, false);
    let mut out = Outcome::pass();
    out.key = hash_of(src);
    // resolve once; generate SQL for every dialect from the same RQ
    let rq = match catch(|| prqlc::prql_to_pl(src).and_then(prqlc::pl_to_rq)) {
        Err(p) => return Outcome::skip(&format!("compiler_panic: {}:{}", p.file, p.line)).class("compiler_panic"),
        Ok(Err(e)) => {
            let r = e.inner.first().map(|m| m.reason.clone()).unwrap_or_default();
            return Outcome::skip(&format!("rejected: {}", util::reason_class(&r))).class("rejected_by_compiler");
        }
        Ok(Ok(rq)) => rq,
    };
    let expect = rq_columns(&rq);
    let mut nontrivial = false;
    let mut compiled = 0;
    let attribute = |dn: &str, what: &str, failure: &str, detail: Value| -> Outcome {
        let mut o = Outcome::fail(what, detail);
        if let Some((id, why)) = c01::attribute_with(&case.base.flags, known, failure) {
            // the wildcard findings are about dialects without a column-exclusion facility
            let strict = id == "C05-wildcard-helper-leak" && HAS_EXCLUDE.contains(&dn);
            if hazard && !strict {
                o.verdict = Verdict::Known(id, why);
            }
        }
        o
    };
    for (dn, d) in DIALECTS {
        let o = util::opts(Some(*d));
        let sql = match catch(|| prqlc::rq_to_sql(rq.clone(), &o)) {
            Err(_) => continue,       // panics are C12's
            Ok(Err(_)) => continue,   // constructs a dialect cannot express are reported as errors: fine
            Ok(Ok(s)) => s,
        };
        compiled += 1;
        // set operators a dialect does not have (sqlparser's dialect parsers accept ALL everywhere):
        // T-SQL knows only UNION [ALL], EXCEPT and INTERSECT
        if mode == Mode::C07 && *dn == "mssql" && (sql.contains("INTERSECT ALL") || sql.contains("EXCEPT ALL")) {
            return Outcome::fail(
                "emitted SQL uses a set operator the mssql dialect does not have (EXCEPT ALL / INTERSECT ALL)",
                json!({"source": src, "dialect": dn, "sql": sql}),
            );
        }
        let bound = match sqlbind::bind(&sql, dn, &schema) {
            Parsed::Syntax(e) => {
                if *dn == "ansi" && sql.contains("_expr_") && (e.contains("identifier") || e.contains("found: _")) && known.is_open(F_ANSI) {
                    out.verdict = Verdict::Known(F_ANSI.into(), "ansi: generated name _expr_N is not a regular identifier".into());
                    continue;
                }
                if *dn == "ansi" && matches!(sqlbind::bind(&sql, "generic", &schema), Parsed::Ok(_)) {
                    // the compiler's ansi handler is its generic one; sqlparser's AnsiDialect is
                    // stricter than its GenericDialect in ways we cannot attribute: undecided
                    out.classes.push("undecided:ansi_parser_stricter".into());
                    continue;
                }
                if *dn == "redshift" && sql.contains("SELECT FROM") && e.contains("found: FROM") {
                    // `SELECT FROM t` (zero columns): the compiler's Redshift handler declares it
                    // supported, sqlparser's RedshiftSqlDialect does not parse it; undecidable here
                    out.classes.push("undecided:redshift_zero_columns".into());
                    continue;
                }
                if *dn == "clickhouse" && sql.contains(" DIV ") {
                    // sqlparser gap: ClickHouseDialect has no infix DIV (ClickHouse itself does)
                    out.classes.push("sqlparser_gap:clickhouse_DIV".into());
                    continue;
                }
                if *dn == "mssql" && e.contains("found: AS") && known.is_open("C07-mssql-boolean-literal") {
                    // `SELECT a = a AS c1`: a boolean expression as a value (T-SQL has none)
                    out.verdict = Verdict::Known("C07-mssql-boolean-literal".into(), "boolean expression in the select list".into());
                    continue;
                }
                if mode == Mode::C05 {
                    continue; // syntax is C07's subject
                }
                let o = attribute(
                    dn,
                    &format!("emitted SQL is not a single query the {dn} dialect parses"),
                    &e,
                    json!({"source": src, "dialect": dn, "sql": sql, "error": e}),
                );
                // a recorded finding under this dialect does not end the case: the other dialects
                // are still decided
                if matches!(o.verdict, Verdict::Known(..)) {
                    out.verdict = o.verdict;
                    continue;
                }
                return o;
            }
            Parsed::Ok(b) => b,
        };
        if (bound.ctes > 0 || bound.joins > 0) && *dn != "generic" {
            nontrivial = true;
        }
        // Postgres (and its relatives here) accept `SELECT FROM t`: the compiler relies on it
        let mut bound = bound;
        if matches!(*dn, "postgres" | "glaredb" | "redshift") {
            bound.errors.retain(|e| e != "empty projection");
        }
        if *dn == "mssql" && !bound.errors.is_empty()
            && bound.errors.iter().all(|e| e.contains("column true is not in scope") || e.contains("column false is not in scope"))
            && known.is_open("C07-mssql-boolean-literal")
        {
            out.verdict = Verdict::Known("C07-mssql-boolean-literal".into(), bound.errors[0].clone());
            continue;
        }
        // recorded finding: an inner join whose condition equates all (remaining) columns is
        // rewritten to INTERSECT ALL, also when column pruning / a wildcard makes the two sides
        // of different arity
        // (the operands' different arities may also leave a later reference unresolved)
        if sql.contains("INTERSECT ALL") && !src.contains("intersect") && !bound.errors.is_empty()
            && known.is_open("C07-join-rewritten-to-intersect")
        {
            out.verdict = Verdict::Known("C07-join-rewritten-to-intersect".into(), bound.errors[0].clone());
            continue;
        }
        if sql.contains("WITH RECURSIVE") && !bound.errors.is_empty()
            && bound.errors.iter().any(|e| e.starts_with("set operation between"))
            && known.is_open("C07-loop-after-sort-arity")
        {
            out.verdict = Verdict::Known("C07-loop-after-sort-arity".into(), bound.errors[0].clone());
            continue;
        }
        // (also when a later de-duplication of the whole row merges the DISTINCT ON into a plain
        // DISTINCT that keeps the ORDER BY of the grouped take)
        let merged_distinct = sql.contains("SELECT DISTINCT ") && src.contains("take 1") && src.contains("sort {(");
        if (sql.contains("DISTINCT ON") || merged_distinct) && !bound.errors.is_empty()
            && bound.errors.iter().all(|e| (e.starts_with("ORDER BY: column _expr_") || e.starts_with("SELECT: column _expr_")) && e.ends_with("is not in scope"))
            && known.is_open("C07-distinct-on-computed-sort-key")
        {
            out.verdict = Verdict::Known("C07-distinct-on-computed-sort-key".into(), bound.errors[0].clone());
            continue;
        }
        if mode != Mode::C05 && !bound.errors.is_empty() {
            let o = attribute(
                dn,
                &format!("emitted SQL does not bind under {dn}: {}", bound.errors[0]),
                &format!("no such column {}", bound.errors.join("; ")),
                json!({"source": src, "dialect": dn, "sql": sql, "binder": bound.errors}),
            );
            if matches!(o.verdict, Verdict::Known(..)) {
                out.verdict = o.verdict;
                continue;
            }
            return o;
        }
        if mode == Mode::C05 {
            if let Some(e) = bound.errors.iter().find(|e| e.starts_with("set operation between")) {
                // the result of a set operation whose branches differ in arity has no well-defined
                // column list: a column of the frame was dropped from (or added to) one branch
                let o = attribute(
                    dn,
                    &format!("under {dn} the branches of a set operation differ in their number of columns"),
                    &format!("no such column {e}"),
                    json!({"source": src, "dialect": dn, "sql": sql, "binder": bound.errors}),
                );
                if matches!(o.verdict, Verdict::Known(..)) {
                    out.verdict = o.verdict;
                    continue;
                }
                return o;
            }
            if !bound.errors.is_empty() {
                continue;
            }
            let (want, positional): (Vec<Option<String>>, bool) = match &expect {
                Some(e) => (e.clone(), true),
                None => (case.base.names.clone(), false),
            };
            if expect.is_none() && !src.ends_with(&format!("{}\n", print::program(&case.base.prog).trim_end())) {
                continue; // extras appended after a wildcard frame: no independent expectation
            }
            let got = &bound.columns;
            let arity_ok = want.len() == got.len();
            let names_ok = arity_ok
                && if positional {
                    want.iter().zip(got).all(|(w, g)| w.is_none() || w == g)
                } else {
                    let mut a: Vec<&String> = want.iter().flatten().collect();
                    let mut b: Vec<&String> = got.iter().flatten().collect();
                    a.sort();
                    b.sort();
                    a.iter().all(|x| b.contains(x))
                };
            if !names_ok {
                let order_only = arity_ok && {
                    let mut a: Vec<&String> = want.iter().flatten().collect();
                    let mut b: Vec<&String> = got.iter().flatten().collect();
                    a.sort();
                    b.sort();
                    a.iter().all(|x| b.contains(x))
                };
                let mut o = attribute(
                    dn,
                    &format!(
                        "result columns under {dn} are not the final frame ({})",
                        if !arity_ok { "arity" } else if order_only { "order" } else { "names" }
                    ),
                    "arity",
                    json!({"source": src, "dialect": dn, "sql": sql, "frame": want, "result_columns": got}),
                );
                if order_only && known.is_open(F_ORDER) {
                    o.verdict = Verdict::Known(F_ORDER.into(), format!("frame {:?} vs result {:?}", want, got));
                }
                // recorded finding: a computed sort key that is still in effect at the end of a
                // wildcard query stays in the result also where EXCLUDE exists (it is needed by the
                // final ORDER BY and is not excluded from `*`)
                if !arity_ok && HAS_EXCLUDE.contains(dn) && got.len() > want.len() && known.is_open(F_SORT_HELPER) {
                    let extra: Vec<&String> = got.iter().flatten().filter(|g| !want.iter().flatten().any(|w| w == *g)).collect();
                    let order_by = sql.rsplit("ORDER BY").next().unwrap_or("");
                    if !extra.is_empty()
                        && extra.len() == got.len() - want.len()
                        && sql.contains("ORDER BY")
                        && extra.iter().all(|e| e.starts_with("_expr_") && order_by.contains(e.as_str()))
                    {
                        o.verdict = Verdict::Known(F_SORT_HELPER.into(), format!("sort helper {:?} stays in the result", extra));
                    }
                }
                // recorded finding: after a sub-query split the exclusion is re-emitted as an
                // unqualified `* EXCLUDE (n)`, which also removes the other relation's column n
                if !arity_ok && HAS_EXCLUDE.contains(dn) && known.is_open(F_BARE_EXCLUDE) {
                    let mut missing: Vec<String> = want.iter().flatten().cloned().collect();
                    for g in got.iter().flatten() {
                        if let Some(i) = missing.iter().position(|m| m == g) {
                            missing.remove(i);
                        }
                    }
                    let bare = sql.contains("* EXCLUDE (") || sql.contains("* EXCEPT (");
                    let all_excluded_names = !missing.is_empty()
                        && missing.iter().all(|n| {
                            regex::Regex::new(&format!(r"select !\{{[^}}]*\.{}\b", regex::escape(n))).map(|re| re.is_match(src)).unwrap_or(false)
                        });
                    if bare && all_excluded_names && got.len() + missing.len() == want.len() {
                        o.verdict = Verdict::Known(F_BARE_EXCLUDE.into(), format!("columns {:?} of the other relation are excluded as well", missing));
                    }
                }
                if matches!(o.verdict, Verdict::Known(..)) {
                    out.verdict = o.verdict;
                    continue;
                }
                return o;
            }
            if HAS_EXCLUDE.contains(dn) && (sql.contains(" EXCLUDE (") || sql.contains(" EXCEPT (")) {
                out.classes.push("column_exclusion_emitted".into());
                if sql.matches(".*").count() >= 2 {
                    out.classes.push("column_exclusion_with_two_stars".into());
                }
            }
        }
    }
    if compiled == 0 {
        return Outcome::skip("no dialect produced SQL").class("rejected_by_compiler");
    }
    out.nontrivial = nontrivial
        && match mode {
            Mode::C05 => case.base.names.len() >= 2,
            _ => true,
        };
    out.classes.push(format!("dialects_compiled={compiled}"));
    out.sample = Some(json!({"prql": src, "dialects_compiled": compiled}));
    out
}

pub const F_CAPTURE: &str = "C09-generated-cte-name-equals-user-column";

/// recorded finding: a generated CTE name `table_N` equals a user column / alias name
fn capture_finding(case: &Case, sql: &str, known: &Known) -> Option<Verdict> {
    // a user *table* called table_M is read as `table_N AS table_M` (renamed as if it were generated)
    if known.is_open("C09-user-table-renamed-as-generated") {
        static RE: std::sync::OnceLock<regex::Regex> = std::sync::OnceLock::new();
        let re = RE.get_or_init(|| regex::Regex::new(r"\btable_(\d+) AS table_(\d+)\b").unwrap());
        for c in re.captures_iter(sql) {
            let user = format!("table_{}", &c[2]);
            if c[1] != c[2] && case.base.db.tables.iter().any(|t| t.name == user) && !sql.contains(&format!("table_{} AS (", &c[1])) {
                return Some(Verdict::Known(
                    "C09-user-table-renamed-as-generated".into(),
                    format!("user table {user} is read as `table_{} AS {user}`", &c[1]),
                ));
            }
        }
    }
    if !known.is_open(F_CAPTURE) {
        return None;
    }
    for n in 0..6 {
        let name = format!("table_{n}");
        let generated = sql.contains(&format!("{name} AS (")) || sql.contains(&format!(" AS {name}"));
        let user_col = case.base.db.tables.iter().any(|t| t.cols.iter().any(|c| c.name == name))
            || case.source.contains(&format!("{name} ="));
        let user_table = case.base.db.tables.iter().any(|t| t.name == name);
        if generated && user_col && !user_table {
            return Some(Verdict::Known(F_CAPTURE.into(), format!("generated relation name {name} is also a user column")));
        }
        // helper columns `_expr_N` are not kept distinct from user columns / aliases of that name
        let h = format!("_expr_{n}");
        let user_h = case.base.db.tables.iter().any(|t| t.name == h || t.cols.iter().any(|c| c.name == h))
            || case.source.contains(&format!("{h} ="));
        if user_h && sql.contains(&h) && known.is_open("C09-helper-column-name-equals-user-column") {
            return Some(Verdict::Known(
                "C09-helper-column-name-equals-user-column".into(),
                format!("user table / column / alias {h} coexists with generated helper columns"),
            ));
        }
    }
    None
}

pub fn check_c09(case: &Case, known: &Known) -> Outcome {
    // a name containing a backslash inside the placeholder of an f-string: the string's escape
    // sequences and the identifier's verbatim spelling compete for the backslash; the book does not say
    // which wins, so such cases are not judged
    {
        static RE: std::sync::OnceLock<regex::Regex> = std::sync::OnceLock::new();
        let re = RE.get_or_init(|| regex::Regex::new(r#"f"[^"\n]*\{[^}"\n]*\\"#).unwrap());
        if re.is_match(&case.source) {
            return Outcome::skip("backslash_name_inside_fstring_placeholder").class("ambiguous");
        }
    }
    // (i) rows on SQLite against tables / columns created with exactly those names
    let (mut o1, _) = c01::judge(&case.base, known);
    if let Verdict::Fail(_, d) = &o1.verdict {
        let sql = d.get("sql").and_then(|s| s.as_str()).unwrap_or("").to_string();
        if let Some(v) = capture_finding(case, &sql, known) {
            o1.verdict = v;
        }
        return o1;
    }
    // (ii) every dialect: the SQL binds against the exact (case-sensitive) names
    let mut o2 = check(case, known, Mode::C07, false);
    if let Verdict::Fail(_, d) = &o2.verdict {
        let sql = d.get("sql").and_then(|s| s.as_str()).unwrap_or("").to_string();
        if let Some(v) = capture_finding(case, &sql, known) {
            o2.verdict = v;
            return o2;
        }
    }
    // (iii) a word the dialect reserves is never emitted bare. Decided for Redshift's own reserved
    // words (the only dialect-specific list): compiled last on this thread, after the same program
    // went through the other dialects, so a decision remembered from another dialect shows.
    if let util::Compiled::Sql(sql) = util::compile(&case.source, Some(prqlc::sql::Dialect::Redshift)) {
        use sqlparser::tokenizer::{Token, Tokenizer};
        let d = sqlparser::dialect::RedshiftSqlDialect {};
        if let Ok(toks) = Tokenizer::new(&d, &sql).tokenize() {
            for tk in toks {
                if let Token::Word(w) = tk {
                    if w.quote_style.is_none() && crate::model::gen::REDSHIFT_ONLY_RESERVED.contains(&w.value.to_lowercase().as_str()) && case.source.contains(&w.value) {
                        return Outcome::fail(
                            "a word reserved by the dialect is emitted as a bare identifier",
                            json!({"source": case.source, "dialect": "redshift", "word": w.value, "sql": sql}),
                        );
                    }
                }
            }
        }
    }
    let hazardous = HAZARD_NAMES.iter().filter(|n| case.source.contains(&format!("`{n}`")) || case.source.contains(*n)).count();
    let generated = ["table_", "_expr_"].iter().any(|g| {
        matches!(util::compile(&case.source, Some(prqlc::sql::Dialect::Generic)), util::Compiled::Sql(s) if s.contains(g))
    });
    o2.nontrivial = o2.nontrivial && hazardous >= 1 && generated;
    if matches!(o1.verdict, Verdict::Skip(_)) && matches!(o2.verdict, Verdict::Pass) {
        o2.classes.push("rows_not_judged".into());
    }
    o2
}

pub fn replay_any(check_name: &str, case: &Value, known: &Known, mode: Mode) -> Option<Outcome> {
    if check_name == "probe" {
        return c01::replay_any(check_name, case, known);
    }
    if check_name == "exclusion-spelling" {
        let c: crate::prop::c09b::ExclCase = serde_json::from_value(case.clone()).ok()?;
        return Some(crate::prop::c09b::check_exclusion(&c, known));
    }
    if check_name == "distinct-on-order" {
        let c: crate::prop::c03::DistinctOnCase = serde_json::from_value(case.clone()).ok()?;
        return Some(crate::prop::c03::check_distinct_on(&c, known));
    }
    if check_name == "case-variant-columns" {
        let c: crate::prop::c09b::CaseVariant = serde_json::from_value(case.clone()).ok()?;
        return Some(crate::prop::c09b::check_variant(&c, known));
    }
    if check_name == "relation-alias-chains" {
        let c: crate::prop::c09b::Case = serde_json::from_value(case.clone()).ok()?;
        return Some(crate::prop::c09b::check(&c, known));
    }
    let c: Case = serde_json::from_value(case.clone()).ok()?;
    if mode == Mode::C09 {
        return Some(check_c09(&c, known));
    }
    Some(check(&c, known, mode, check_name.starts_with("hazard/")))
}

const HAZ_C07: &[&str] = &["dup_names", "sorted_let", "const_group_key", "win_over_win", "dropped_key_join", "wild_let", "take_far_from_sort", "sort_by_windowed", "append_free", "group_take_sort_agg", "multi_take_agg", "open_take", "wild_dup_join", "computed_key_join"];
const HAZ_C05: &[&str] = &["dup_names", "dup_select", "shadow", "wild_helpers", "const_fold", "wild_except_twice", "wild_except_sorted"];

pub fn run_c07(ctx: &Ctx) -> i32 {
    ctx.run_replays(|c, case| replay_any(c, case, &ctx.known, Mode::C07));
    ctx.tape_search("all-dialects", ctx.n(8_000, 400_000), 450, |t| gen_case(t, None, false), |c| check(c, &ctx.known, Mode::C07, false));
    ctx.tape_search("distinct-on-order", ctx.n(3_000, 30_000), 12, crate::prop::c03::gen_distinct_on_case, |c| crate::prop::c03::check_distinct_on(c, &ctx.known));
    for h in HAZ_C07 {
        ctx.tape_search(&format!("hazard/{h}"), ctx.n(300, 10_000), 450, |t| gen_case(t, Some(h), false), |c| {
            let mut o = check(c, &ctx.known, Mode::C07, true);
            o.nontrivial = false;
            o
        });
    }
    ctx.finish(
        "generated programs (relational core, windows, append, let-tables, functions) plus dialect-sensitive extras (std.math / std.text calls, casts, date / time / interval literals, array `in`, takes) compiled for all 12 dialects from one RQ; each emitted text must parse as exactly one query with sqlparser's parser for that dialect, and bind: every FROM table is a base table of the case or a CTE defined earlier, every qualifier names a relation visible in that SELECT, every column resolves in its clause's scope (ORDER BY / GROUP BY / HAVING may see projection aliases), set operations have equal arity, projections are non-empty, relation names unique per FROM. A compile error is always acceptable. non-trivial = some non-generic dialect's SQL has a CTE or a join; distinct = source text",
        &["sqlparser 0.60 approximates each dialect; its known gaps are excluded per (dialect, construct) with the reason recorded", "engine semantics of dialects other than SQLite are not executed"],
    )
}

pub fn run_c05(ctx: &Ctx) -> i32 {
    ctx.run_replays(|c, case| replay_any(c, case, &ctx.known, Mode::C05));
    ctx.tape_search("frame-vs-result-columns", ctx.n(8_000, 400_000), 450, |t| gen_case(t, None, false), |c| {
        // sqlite / generic: also the real column list of the prepared statement
        let o = check(c, &ctx.known, Mode::C05, false);
        if !matches!(o.verdict, Verdict::Pass) {
            return o;
        }
        let (o1, det) = c01::judge(&c.base, &ctx.known);
        if c.source.trim_end() == print::program(&c.base.prog).trim_end() {
            if let Verdict::Fail(what, _) = &o1.verdict {
                if what.contains("arity") {
                    return o1;
                }
            }
            if let (Some(det), Ok(Ok(rq))) = (det, catch(|| prqlc::prql_to_pl(&c.source).and_then(prqlc::pl_to_rq))) {
                if let Some(want) = rq_columns(&rq) {
                    let got = &det.res.cols;
                    let ok = want.len() == got.len() && want.iter().zip(got).all(|(w, g)| w.as_ref().map(|w| w == g).unwrap_or(true));
                    if !ok {
                        let mut a: Vec<&String> = want.iter().flatten().collect();
                        let mut b: Vec<&String> = got.iter().collect();
                        a.sort();
                        b.sort();
                        let order_only = want.len() == got.len() && a.iter().all(|x| b.contains(x));
                        let mut f = Outcome::fail(
                            "SQLite's result columns are not the final frame",
                            json!({"source": c.source, "sql": det.sql, "frame": want, "result_columns": got}),
                        );
                        if order_only && ctx.known.is_open(F_ORDER) {
                            f.verdict = Verdict::Known(F_ORDER.into(), format!("frame {:?} vs result {:?}", want, got));
                        }
                        return f;
                    }
                }
            }
        }
        o
    });
    // exclusions over wildcard frames: decided under the dialects that have EXCLUDE / EXCEPT (the
    // others re-emit the excluded column through `*`: recorded finding, attributed per dialect)
    ctx.tape_search("hazard/wild_except+exclude-dialects", ctx.n(8_000, 150_000), 450, |t| gen_case(t, Some("wild_except"), false), |c| {
        let mut o = check(c, &ctx.known, Mode::C05, true);
        o.nontrivial = o.classes.iter().any(|k| k == "column_exclusion_emitted");
        o
    });
    // columns whose names differ only in case, through shapes that split the query
    ctx.tape_search("case-variant-columns", ctx.n(800, 8_000), 20, crate::prop::c09b::gen_case_variant, |c| crate::prop::c09b::check_variant(c, &ctx.known));
    // set operations: appends of simple inputs followed by projections / derives / exclusions
    ctx.tape_search("append-then-project", ctx.n(3_000, 100_000), 450, |t| gen_case_cfg(t, None, false, true), |c| check(c, &ctx.known, Mode::C05, false));
    for h in HAZ_C05 {
        ctx.tape_search(&format!("hazard/{h}"), if *h == "const_fold" { ctx.n(2_000, 40_000) } else { ctx.n(300, 10_000) }, 450, |t| gen_case(t, Some(h), false), |c| {
            let mut o = check(c, &ctx.known, Mode::C05, true);
            o.nontrivial = false;
            o
        });
    }
    ctx.finish(
        "generated programs in both frame modes (explicit columns / wildcard relations), select !{..}, joins of tables sharing column names, sort-then-project, take inside group, windowed filters. Expected = the resolver's own final frame (RQ relation.columns: names, arity, order; the generator's frame model when the frame is a wildcard). Observed = (i) for all 12 dialects the output column list the binder computes from the re-parsed SQL (expanding *, t.*, EXCLUDE/EXCEPT, CTEs, set operations) and (ii) for sqlite/generic the column list of the prepared statement. Arity must match and every named frame column must carry its name at its position. non-trivial = >= 2 frame columns and a CTE or join in some non-generic dialect's SQL; distinct = source text",
        &["unnamed frame columns may carry any name", "helper leakage is decided by arity and position, never by the _expr_N pattern"],
    )
}

pub fn run_c09(ctx: &Ctx) -> i32 {
    ctx.run_replays(|c, case| replay_any(c, case, &ctx.known, Mode::C09));
    ctx.tape_search("hazardous-names", ctx.n(8_000, 400_000), 450, |t| gen_case(t, None, true), |c| check_c09(c, &ctx.known));
    ctx.tape_search("relation-alias-chains", ctx.n(4_000, 200_000), 60, crate::prop::c09b::gen_case, |c| crate::prop::c09b::check(c, &ctx.known));
    ctx.tape_search("case-variant-columns", ctx.n(600, 6_000), 20, crate::prop::c09b::gen_case_variant, |c| crate::prop::c09b::check_variant(c, &ctx.known));
    ctx.enumerate("exclusion-spelling", crate::prop::c09b::exclusion_cases(), |c| crate::prop::c09b::check_exclusion(c, &ctx.known));
    ctx.finish(
        "the relational-core generator with a hazardous name pool for tables, let-tables, relation aliases, column aliases and columns (SQL keywords, spaces, quotes, mixed case, non-ASCII, leading digits, and the generated patterns table_N / _expr_N as user names), in programs that create CTEs and helper columns. Oracle (i): differential execution on SQLite against tables and columns created with exactly those names (a captured or mangled name changes rows or fails to bind). Oracle (ii): for all 12 dialects the emitted SQL must parse and bind case-sensitively against the exact names. non-trivial = a hazardous user name and a generated name both occur; distinct = source text",
        &["case folding of real engines other than SQLite is not executed", "names containing a backtick are outside the statement"],
    )
}
