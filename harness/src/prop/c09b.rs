//! C09, second generator: chains of joins over relations whose names and aliases are hazardous
//! (generated patterns table_N included), some of them repeated without alias so that the
//! compiler has to invent aliases. Every table carries a marker column, so "refers to the
//! database object of exactly that name" is decided by the values that come back.

use serde::{Deserialize, Serialize};
use serde_json::json;

use crate::known::Known;
use crate::model::ast::{Column, Db, Table};
use crate::model::exec;
use crate::model::val::{Ty, Val};
use crate::prop::c07::schema_for;
use crate::runner::{hash_of, Outcome};
use crate::sqlbind::{self, Parsed};
use crate::tape::Tape;
use crate::util::{self, Compiled, DIALECTS};

const NAMES: &[&str] = &[
    "table_0", "table_1", "table_2", "table_3", "a", "b", "order", "select", "a b", "Mixed", "é", "it's", "x\"y", "_expr_0", "user", "t",
];

#[derive(Clone, Debug, Serialize, Deserialize)]
pub struct Rel {
    /// index into `tables`
    pub table: usize,
    /// `alias = table`
    pub alias: Option<String>,
    /// joined as a sub-pipeline `(from table | select {id, m})` (keeps the table's name, becomes a CTE)
    pub sub: bool,
}

#[derive(Clone, Debug, Serialize, Deserialize)]
pub struct Case {
    pub tables: Vec<String>,
    pub rels: Vec<Rel>,
}

fn q(n: &str) -> String {
    let plain = !n.is_empty() && n.chars().all(|c| c.is_ascii_alphanumeric() || c == '_') && !n.chars().next().unwrap().is_ascii_digit();
    if plain && !matches!(n, "select" | "from" | "order" | "case" | "let" | "into" | "type" | "module" | "prql" | "func" | "internal") {
        n.to_string()
    } else {
        format!("`{n}`")
    }
}

pub fn gen_case(t: &mut Tape) -> Case {
    // distinct table names
    let mut pool: Vec<&str> = NAMES.to_vec();
    let nt = 2 + t.choose(3);
    let mut tables = vec![];
    for _ in 0..nt {
        // generated-name patterns first, often
        let i = if t.chance(1, 2) { t.choose(4.min(pool.len())) } else { t.choose(pool.len()) };
        tables.push(pool.remove(i).to_string());
    }
    let n = 2 + t.choose(3);
    let mut rels = vec![];
    for k in 0..n {
        let table = t.choose(tables.len());
        let kind = if k == 0 { t.weighted(&[5, 2, 0]) } else { t.weighted(&[5, 3, 2]) };
        rels.push(match kind {
            1 => Rel { table, alias: Some(t.pick(NAMES).to_string()), sub: false },
            2 => Rel { table, alias: None, sub: true },
            _ => Rel { table, alias: None, sub: false },
        });
    }
    Case { tables, rels }
}

/// the name under which a relation can be referred to, if it has one
fn name_of(c: &Case, r: &Rel) -> Option<String> {
    if r.sub {
        // a sub-pipeline keeps the name of the relation it reads (`from t | select ..` is `t`)
        return Some(c.tables[r.table].clone());
    }
    Some(r.alias.clone().unwrap_or_else(|| c.tables[r.table].clone()))
}

pub fn program(c: &Case) -> (String, Vec<usize>) {
    // relations whose name is unique in the chain can be referred to
    let names: Vec<Option<String>> = c.rels.iter().map(|r| name_of(c, r)).collect();
    let usable: Vec<usize> = (0..c.rels.len())
        .filter(|i| names[*i].is_some() && names.iter().filter(|n| **n == names[*i]).count() == 1)
        .collect();
    let src_of = |r: &Rel| -> String {
        let tn = q(&c.tables[r.table]);
        if r.sub {
            format!("(from {tn} | select {{id, m}})")
        } else if let Some(a) = &r.alias {
            format!("{} = {tn}", q(a))
        } else {
            tn
        }
    };
    let mut s = format!("from {}", src_of(&c.rels[0]));
    for r in &c.rels[1..] {
        s.push_str(&format!(" | join {} (true)", src_of(r)));
    }
    let items: Vec<String> = usable
        .iter()
        .enumerate()
        .map(|(k, i)| format!("x{k} = {}.m", q(names[*i].as_ref().unwrap())))
        .collect();
    if items.is_empty() {
        s.push_str(" | select {x0 = 1}");
    } else {
        s.push_str(&format!(" | select {{{}}}", items.join(", ")));
    }
    s.push('\n');
    (s, usable)
}

fn db_of(c: &Case) -> Db {
    Db {
        tables: c
            .tables
            .iter()
            .enumerate()
            .map(|(i, n)| Table {
                name: n.clone(),
                cols: vec![Column { name: "id".into(), ty: Ty::Int }, Column { name: "m".into(), ty: Ty::Int }],
                rows: (1..=2).map(|id| vec![Val::Int(id), Val::Int(100 * (i as i64 + 1) + id)]).collect(),
            })
            .collect(),
    }
}

pub fn check(c: &Case, known: &Known) -> Outcome {
    let (src, usable) = program(c);
    let db = db_of(c);
    let mut out = Outcome::pass();
    out.key = hash_of(&src);
    let repeated = {
        let names: Vec<Option<String>> = c.rels.iter().map(|r| name_of(c, r)).collect();
        (0..names.len()).any(|i| names[i].is_none() || names.iter().filter(|n| **n == names[i]).count() > 1)
    };
    let generated_like = c.tables.iter().chain(c.rels.iter().filter_map(|r| r.alias.as_ref())).any(|n| n.starts_with("table_"));
    out.nontrivial = repeated && generated_like;
    if repeated {
        out.classes.push("compiler_must_invent_an_alias".into());
    }
    if generated_like {
        out.classes.push("user_name_like_table_N".into());
    }
    out.sample = Some(json!({"prql": src}));
    // (i) rows on SQLite: the cross product; column k carries the markers of relation usable[k]
    let sql = match util::compile(&src, util::dialect_by_name("sqlite")) {
        Compiled::Sql(s) => s,
        Compiled::Err(r) => return Outcome::skip(&format!("rejected: {}", util::reason_class(r.first().map(|s| s.as_str()).unwrap_or("")))).class("rejected_by_compiler"),
        Compiled::Panic(p) => return Outcome::skip(&format!("compiler_panic {}:{}", p.file, p.line)).class("compiler_panic"),
    };
    let res = match exec::run(&db, &sql) {
        Ok(r) => r,
        Err(e) => {
            return Outcome::fail(
                "emitted SQL fails on SQLite",
                json!({"source": src, "sql": sql, "error": e.msg()}),
            )
        }
    };
    let n = c.rels.len();
    let mut want: Vec<Vec<i64>> = vec![];
    let total = 1usize << n; // 2 rows per relation
    for mask in 0..total {
        let row: Vec<i64> = if usable.is_empty() {
            vec![1]
        } else {
            usable
                .iter()
                .map(|i| {
                    let id = 1 + ((mask >> i) & 1) as i64;
                    100 * (c.rels[*i].table as i64 + 1) + id
                })
                .collect()
        };
        want.push(row);
    }
    want.sort();
    let mut got: Vec<Vec<i64>> = res
        .rows
        .iter()
        .map(|r| r.iter().map(|v| if let Val::Int(i) = v { *i } else { i64::MIN }).collect())
        .collect();
    got.sort();
    if got != want {
        return Outcome::fail(
            "a qualified column does not come from the relation of that name",
            json!({"source": src, "sql": sql, "expected_rows": want, "rows": got}),
        );
    }
    // (ii) every dialect: binds with relation names unique per FROM
    let schema = schema_for(&db);
    for (dn, d) in DIALECTS {
        let Compiled::Sql(sql) = util::compile(&src, Some(*d)) else { continue };
        if let Parsed::Ok(mut b) = sqlbind::bind(&sql, dn, &schema) {
            if *dn == "mssql" && known.is_open("C07-mssql-boolean-literal") {
                // `ON true`: recorded finding of C07
                b.errors.retain(|e| !e.contains("column true is not in scope"));
            }
            if !b.errors.is_empty() {
                return Outcome::fail(
                    &format!("emitted SQL does not bind under {dn}: {}", b.errors[0]),
                    json!({"source": src, "dialect": dn, "sql": sql, "binder": b.errors}),
                );
            }
        }
    }
    out
}

// ---------------------------------------------------------------------------------------
// columns whose names differ only in case, carried through a sub-query split. SQLite cannot hold
// such a table (its column names are case-insensitive), so this family is decided by the binder
// alone: under every dialect the statement binds and its result columns are exactly the frame.

#[derive(Clone, Debug, Serialize, Deserialize)]
pub struct CaseVariant {
    pub table: String,
    pub n1: String,
    pub n2: String,
    pub other: String,
    pub shape: u8,
}

const PAIRS: &[(&str, &str)] = &[("id", "ID"), ("key", "Key"), ("é", "É"), ("Mixed", "mixed"), ("aB", "Ab"), ("x_y", "X_Y"), ("Total", "total")];

pub fn gen_case_variant(t: &mut Tape) -> CaseVariant {
    let (a, b) = *t.pick(PAIRS);
    let (n1, n2) = if t.chance(1, 2) { (a, b) } else { (b, a) };
    CaseVariant {
        table: t.pick(&["t", "table_0", "Tbl", "order"]).to_string(),
        n1: n1.to_string(),
        n2: n2.to_string(),
        other: t.pick(&["x", "Val", "w"]).to_string(),
        shape: t.choose(7) as u8,
    }
}

pub fn program_variant(c: &CaseVariant) -> (String, Vec<String>) {
    let (t, a, b, x) = (q(&c.table), q(&c.n1), q(&c.n2), q(&c.other));
    match c.shape {
        0 => (format!("from {t} | select {{{a}, {b}, {x}}} | take 5 | filter {x} > 1\n"), vec![c.n1.clone(), c.n2.clone(), c.other.clone()]),
        1 => (
            format!("from {t} | select {{{a}, {b}, {x}}} | derive {{zw = {x} + 1}} | filter zw > 2 | select {{{b}, {a}, zw}}\n"),
            vec![c.n2.clone(), c.n1.clone(), "zw".into()],
        ),
        2 => (
            format!("from {t} | select {{{a}, {b}, {x}}} | sort {{{x}}} | take 3 | derive {{zw = {a} + {b}}} | filter zw > 0\n"),
            vec![c.n1.clone(), c.n2.clone(), c.other.clone(), "zw".into()],
        ),
        3 => (
            format!("from {t} | select {{{a}, {b}, {x}}} | group {{{a}}} (sort {{{x}}} | take 1) | filter {b} > 0\n"),
            vec![c.n1.clone(), c.n2.clone(), c.other.clone()],
        ),
        // the two names as aliases of computed columns
        5 => (
            format!("from {t} | select {{{a} = {x} + 1, {b} = {x}}} | take 5 | filter {a} > 3\n"),
            vec![c.n1.clone(), c.n2.clone()],
        ),
        6 => (
            format!("from {t} | derive {{zq = {x} * 2}} | select {{{b} = zq, {x}, {a} = {x} - 1}} | sort {{{a}}} | take 2 | derive {{zw = {b}}} | filter zw > 0\n"),
            vec![c.n2.clone(), c.other.clone(), c.n1.clone(), "zw".into()],
        ),
        _ => (
            format!("from {t} | select {{{b}, {x}, {a}}} | filter {x} > 1 | take 2..4 | derive {{zw = 1}} | filter {a} != {b}\n"),
            vec![c.n2.clone(), c.other.clone(), c.n1.clone(), "zw".into()],
        ),
    }
}

pub fn check_variant(c: &CaseVariant, known: &Known) -> Outcome {
    let (src, want) = program_variant(c);
    let mut out = Outcome::pass();
    out.key = hash_of(&src);
    out.nontrivial = true;
    out.classes.push("case_variant_columns".into());
    out.sample = Some(json!({"prql": src}));
    let mut tables = std::collections::HashMap::new();
    tables.insert(c.table.clone(), vec![c.n1.clone(), c.n2.clone(), c.other.clone()]);
    let schema = sqlbind::Schema { tables, fold_case: false };
    let mut compiled = 0;
    for (dn, d) in DIALECTS {
        let sql = match util::compile(&src, Some(*d)) {
            Compiled::Sql(s) => s,
            Compiled::Err(_) => continue,
            Compiled::Panic(p) => return Outcome::skip(&format!("compiler_panic {}:{}", p.file, p.line)).class("compiler_panic"),
        };
        compiled += 1;
        let Parsed::Ok(mut b) = sqlbind::bind(&sql, dn, &schema) else { continue };
        if *dn == "ansi" && sql.contains("_expr_") {
            continue; // recorded finding C07-ansi-underscore-identifier
        }
        let _ = known;
        b.errors.retain(|e| e != "empty projection");
        if !b.errors.is_empty() {
            return Outcome::fail(
                &format!("emitted SQL does not bind under {dn}: {}", b.errors[0]),
                json!({"source": src, "dialect": dn, "sql": sql, "binder": b.errors}),
            );
        }
        let got: Vec<String> = b.columns.iter().map(|c| c.clone().unwrap_or_default()).collect();
        if got != want {
            return Outcome::fail(
                &format!("result columns under {dn} are not the frame (names differing only in case)"),
                json!({"source": src, "dialect": dn, "sql": sql, "frame": want, "result_columns": got}),
            );
        }
    }
    if compiled == 0 {
        return Outcome::skip("no dialect produced SQL").class("rejected_by_compiler");
    }
    out
}


// ---------------------------------------------------------------------------------------
// The same identifier is spelled the same way wherever the statement names it: in the column list of
// `* EXCLUDE (..)` / `* EXCEPT (..)` (duckdb, snowflake, bigquery) as in a plain select list.
// Enumerated completely over the hazardous names.

#[derive(Clone, Debug, Serialize, Deserialize)]
pub struct ExclCase {
    pub name: String,
    pub dialect: String,
}

pub fn exclusion_cases() -> Vec<ExclCase> {
    let mut v = vec![];
    for n in crate::model::gen::HAZARD_NAMES {
        if n.contains('\\') || n.contains('`') {
            continue;
        }
        for d in ["duckdb", "snowflake", "bigquery"] {
            v.push(ExclCase { name: n.to_string(), dialect: d.into() });
        }
    }
    v
}

pub fn check_exclusion(c: &ExclCase, _known: &Known) -> Outcome {
    let d = util::dialect_by_name(&c.dialect);
    let mut out = Outcome::pass();
    out.key = hash_of(&(&c.name, &c.dialect));
    let sel = format!("from t9 | select {{`{}`}}\n", c.name);
    let exc = format!("from t9 | select !{{`{}`, zz}}\n", c.name);
    let (Compiled::Sql(s1), Compiled::Sql(s2)) = (util::compile(&sel, d), util::compile(&exc, d)) else {
        return Outcome::skip("rejected").class("rejected_by_compiler");
    };
    // spelling in the plain select list: `SELECT <tok> FROM t9`
    let Some(tok) = s1.strip_prefix("SELECT ").and_then(|r| r.rsplit_once(" FROM ")).map(|(t, _)| t.trim().to_string()) else {
        return Outcome::skip("unexpected select shape").class("unexpected_shape");
    };
    out.nontrivial = tok != c.name;
    out.classes.push(format!("exclusion_spelling:{}", c.dialect));
    out.sample = Some(json!({"name": c.name, "dialect": c.dialect, "select": s1, "exclusion": s2}));
    if !(s2.contains(&format!("({tok}, zz)")) || s2.contains(&format!("({tok}, \"zz\")")) || s2.contains(&format!("({tok}, `zz`)"))) {
        return Outcome::fail(
            "an identifier is spelled differently in the column-exclusion list than in a select list",
            json!({"name": c.name, "dialect": c.dialect, "spelled_in_select": tok, "select_sql": s1, "exclusion_sql": s2}),
        );
    }
    out
}
