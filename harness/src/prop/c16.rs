//! C16 — every emitted RQ is closed and consistently identified.

use serde::{Deserialize, Serialize};
use serde_json::{json, Value};

use crate::known::Known;
use crate::model::gen::{Bias, GenCfg};
use crate::model::print;
use crate::prop::c01;
use crate::rqcheck;
use crate::runner::{catch, hash_of, Ctx, Outcome};
use crate::tape::Tape;

#[derive(Clone, Debug, Serialize, Deserialize)]
pub struct Case {
    pub source: String,
    /// a sub-pipeline (join / append operand) or let-table contains a sort
    #[serde(default)]
    pub sorted_sub: bool,
    /// a sort with a computed key is followed by a join / append of a sub-pipeline
    #[serde(default)]
    pub computed_sort_then_sub: bool,
}

pub const F_SORT_INTO_SUB: &str = "C16-computed-sort-key-lowered-into-subpipeline";
pub const F_SUB_SORT_LEAKS: &str = "C16-subpipeline-sort-leaks-into-main";

fn scan(p: &crate::model::ast::Pipeline, is_sub: bool, sorted_sub: &mut bool, cs_then_sub: &mut bool) {
    use crate::model::ast::{Expr, SrcKind, Step};
    fn steps(ss: &[Step], is_sub: bool, sorted_sub: &mut bool, cs_then_sub: &mut bool, computed_seen: &mut bool) {
        for st in ss {
            match st {
                Step::Sort(keys) => {
                    if is_sub {
                        *sorted_sub = true;
                    }
                    if keys.iter().any(|k| !matches!(k.expr, Expr::Col(_))) {
                        *computed_seen = true;
                    }
                }
                Step::Join { right: src, .. } | Step::Append(src) => {
                    if let SrcKind::Sub(p) = &src.kind {
                        if *computed_seen {
                            *cs_then_sub = true;
                        }
                        scan(p, true, sorted_sub, cs_then_sub);
                    }
                    if let SrcKind::Let(_) = &src.kind {
                        if *computed_seen {
                            *cs_then_sub = true;
                        }
                    }
                }
                Step::Group { inner, .. } | Step::Window { inner, .. } => {
                    steps(inner, is_sub, sorted_sub, cs_then_sub, computed_seen)
                }
                _ => {}
            }
        }
    }
    let mut computed_seen = false;
    if let SrcKind::Sub(q) = &p.source.kind {
        scan(q, true, sorted_sub, cs_then_sub);
    }
    steps(&p.steps, is_sub, sorted_sub, cs_then_sub, &mut computed_seen);
}

pub const ALL_HAZARDS: &[&str] = &[
    "dup_select", "dup_names", "open_take", "drop_agg", "wild_helpers", "append_free", "int_divi",
    "unframed_last", "sorted_let", "const_null_fold", "shadow", "const_group_key", "compound_agg", "win_over_win",
    "mul_right", "sorted_group_derive", "sort_key_rename", "dropped_key_join", "wild_let", "const_fold",
    "group_take_sort_agg", "resort_after_take", "sort_by_windowed", "take_far_from_sort", "sorted_aggregate",
    "multi_take_agg", "computed_key_join", "take_distinct",
];

/// The resolver's output does not depend on the SQL back-end's defects: all constructs are generated.
pub fn gen_case(t: &mut Tape) -> Case {
    let mut cfg = GenCfg::general();
    cfg.bias = *t.pick(&[Bias::General, Bias::Frame, Bias::Window, Bias::Sort]);
    cfg.max_steps = 9;
    cfg.hazards = ALL_HAZARDS.to_vec();
    let c = c01::gen_case(t, cfg);
    let mut src = print::program(&c.prog).trim_end().to_string();
    let (mut sorted_sub, mut cs) = (false, false);
    for l in &c.prog.lets {
        scan(&l.pipe, true, &mut sorted_sub, &mut cs);
    }
    scan(&c.prog.main, false, &mut sorted_sub, &mut cs);
    // remove / intersect are outside the executable model: splice them in textually
    let sep = if c.prog.surface.newlines { "\n" } else { " | " };
    match t.choose(12) {
        0 => src.push_str(&format!("{sep}remove (from t1 | select {{id}})")),
        1 => src.push_str(&format!("{sep}intersect (from t1 | select {{id}})")),
        // inline pipelines nested two or three deep whose middle level passes the inner columns on
        // without selecting them; the outer level uses them (explicitly or through its implicit select)
        2 | 3 => {
            let inner = *t.pick(&[
                "(from t3 | select {zz = id, zy = a})",
                "(from t3 | derive {zz = id + 1} | select {zz, zy = a})",
                "(from t3 | select {zz = id, zy = a} | join zd = (from t1 | select {zx = id}) (zz == zd.zx))",
                "(from t3 | select {zz = id, zy = a} | filter zy > 0)",
                // one column without a name (an expression, an aggregate): it cannot be named outside
                // but it is part of the relation
                "(from t3 | select {zz = id, zy = a, a * 12})",
                "(from t3 | group {zz = id} (aggregate {zy = max a, sum a}))",
            ]);
            // (no sort / take here: a sort in effect around a sub-pipeline is the recorded
            // C16-subpipeline-sort-leaks-into-main / computed-sort-key findings)
            let middle = *t.pick(&["", " | filter zc.zy != null", " | derive {zw = zc.zy + 1}", " | filter t2.a > 0 | derive {zw = t2.a}"]);
            let outer = *t.pick(&["", " | select {zb.zz, zb.zy}", " | derive {zv = zb.zz + zb.zy}", " | filter zb.zz > 0 | select {zb.zy}", " | group {zb.zz} (aggregate {zn = count this})"]);
            src.push_str(&format!("{sep}join side:left zb = (from t2 | join zc = {inner} (t2.id == zc.zz){middle}) (true){outer}"));
            // a sort with a computed key anywhere before this join is the recorded finding's shape
            fn computed_sort(steps: &[crate::model::ast::Step]) -> bool {
                steps.iter().any(|s| match s {
                    crate::model::ast::Step::Sort(keys) => keys.iter().any(|k| !matches!(k.expr, crate::model::ast::Expr::Col(_))),
                    crate::model::ast::Step::Group { inner, .. } => computed_sort(inner),
                    _ => false,
                })
            }
            if computed_sort(&c.prog.main.steps) {
                cs = true;
            }
        }
        // a function that uses its relation parameter twice, applied to a plain table / a literal
        4 => {
            // (`rel | append rel` is left out: on the unchanged tree its Select already uses ids of the
            // first instance that are not visible; observed, DESIGN 10.4)
            let body = *t.pick(&["(rel | join side:left rel (==id))", "(rel | join zr2 = rel (rel.id == zr2.id) | select {rel.id, zr2.a})", "(rel | join side:inner rel (==a) | filter id > 0)"]);
            let arg = *t.pick(&["from t2", "from t3", "from [{id = 1, a = 2}, {id = 3, a = 4}]"]);
            let use_ = if body.contains("append") && t.chance(1, 2) { " | select {zf.id}" } else { "" };
            src = format!("let zsj = rel -> {body}\n{src}{sep}join side:left zf = ({arg} | zsj) (true){use_}");
        }
        _ => {}
    }
    src.push('\n');
    Case { source: src, sorted_sub, computed_sort_then_sub: cs }
}

pub fn check(case: &Case, known: &Known) -> Outcome {
    let src = &case.source;
    let rq = match catch(|| prqlc::prql_to_pl(src).and_then(prqlc::pl_to_rq)) {
        Err(p) => return Outcome::skip(&format!("compiler_panic: {}:{}", p.file, p.line)).class("compiler_panic"),
        Ok(Err(e)) => {
            let r = e.inner.first().map(|m| m.reason.clone()).unwrap_or_default();
            return Outcome::skip(&format!("rejected_by_resolver: {}", crate::util::reason_class(&r))).class("rejected_by_resolver");
        }
        Ok(Ok(rq)) => rq,
    };
    let v = match serde_json::to_value(&rq) {
        Ok(v) => v,
        Err(e) => return Outcome::fail("RQ does not serialise", json!({"source": src, "error": e.to_string()})),
    };
    let (errors, st) = rqcheck::check(&v);
    let mut out = Outcome::pass();
    out.key = hash_of(src);
    out.nontrivial = st.tables >= 2 && (st.joins + st.appends) >= 1 && st.cids >= 8;
    out.classes.push(format!("tables={}", st.tables.min(6)));
    if st.joins > 0 {
        out.classes.push("join".into());
    }
    if st.appends > 0 {
        out.classes.push("append".into());
    }
    if st.windows > 0 {
        out.classes.push("window".into());
    }
    if st.aggregates > 0 {
        out.classes.push("aggregate".into());
    }
    out.sample = Some(json!({"prql": src, "tables": st.tables, "cids": st.cids}));
    if !errors.is_empty() {
        let all_a = errors.iter().all(|e| e.contains("(Compute) is not defined before its use") && e.contains("used in table"));
        let all_ab = errors.iter().all(|e| {
            (e.contains("(Compute) is not defined before its use") && e.contains("used in table"))
                || e.contains("used as sort key in") && e.contains("is defined in another pipeline or later")
        });
        if all_a && case.computed_sort_then_sub && known.is_open(F_SORT_INTO_SUB) {
            out.verdict = crate::runner::Verdict::Known(F_SORT_INTO_SUB.into(), errors[0].clone());
            return out;
        }
        if all_ab && (case.sorted_sub || case.computed_sort_then_sub) && known.is_open(F_SUB_SORT_LEAKS) && known.is_open(F_SORT_INTO_SUB) {
            out.verdict = crate::runner::Verdict::Known(F_SUB_SORT_LEAKS.into(), errors[0].clone());
            return out;
        }
        return Outcome::fail(
            &errors[0].split(" is ").last().map(|_| errors[0].clone()).unwrap_or_default(),
            json!({"source": src, "violations": errors, "rq": v}),
        );
    }
    out
}

pub fn replay_any(_c: &str, case: &Value, known: &Known) -> Option<Outcome> {
    let c: Case = serde_json::from_value(case.clone()).ok()?;
    Some(check(&c, known))
}

/// one exclusion over relations of unknown columns, aliased and not (chained exclusions and exclusions
/// followed by further steps are recorded C05 findings with RQ symptoms of their own: not generated)
const EXCLUSION_SOURCES: &[&str] = &[
    "from e = t1 | select !{a}",
    "from e = t1 | select !{e.a, e.b}",
    "from t1 | select !{a}",
    "from t1 | join v = t2 (t1.id == v.id) | select !{v.id}",
    "from e = t1 | join v = t2 (e.id == v.id) | select !{e.a}",
    "from e = t1 | join v = t2 (e.id == v.id) | select !{e.a, v.b}",
    "let l = (from e = t1 | select !{a})\nfrom l",
    "let l = (from e = t1 | select !{e.b})\nfrom t2 | join l (t2.id == l.id)",
    "from e = t1 | filter a > 0 | select !{a}",
    "from e = t1 | derive {z = a + 1} | select !{e.a}",
];

pub fn corpus_sources() -> Vec<Case> {
    crate::util::corpus_programs()
        .into_iter()
        .chain(EXCLUSION_SOURCES.iter().map(|s| format!("{s}\n")))
        .map(|s| Case { source: s, sorted_sub: false, computed_sort_then_sub: false })
        .collect()
}

pub fn run(ctx: &Ctx) -> i32 {
    ctx.run_replays(|c, case| replay_any(c, case, &ctx.known));
    ctx.enumerate("repo-queries", corpus_sources(), |c| check(c, &ctx.known));
    ctx.tape_search("generated", ctx.n(40_000, 1_500_000), 500, gen_case, |c| check(c, &ctx.known));
    if !ctx.quick() {
        ctx.fuzz_campaign("tape_c16", ctx.fuzz_secs(180), 1200);
    }
    ctx.finish(
        "generated programs with every construct of the generator enabled (nested group/window pipelines, joins of sub-pipelines and let-tables, several references to one let-table, append, remove/intersect, relation shapes the SQL back-end mishandles) plus the repository's integration queries; the resolver's RQ (as JSON) is checked for: each column id defined exactly once; every id used in a transform / sort / partition / window / take range / expression defined earlier and visible (after Select and Aggregate only their columns); table ids unique and declared before use; table-reference columns exist in the source; pipelines start with From and end with a Select of the declared arity; is_aggregation exactly on aggregated computes. non-trivial = >= 2 tables, >= 1 join or append, >= 8 column ids; distinct = source text",
        &["'visible' is read strictly for expressions and partitions (after Select only the selected ids, after Aggregate only partition and compute ids); sort keys only have to be defined earlier in the same pipeline, because the resolver deliberately carries the sort in effect past a Select that drops its columns (calibrated on the repository's own queries)"],
    )
}
