//! C18 — the dialect is chosen by options, then by the query header, then generic.

use std::str::FromStr;

use serde::{Deserialize, Serialize};
use serde_json::{json, Value};

use crate::known::Known;
use crate::model::gen::{Bias, GenCfg};
use crate::model::print;
use crate::prop::c01;
use crate::runner::{catch, hash_of, Ctx, Outcome};
use crate::tape::Tape;
use crate::util::{self, Compiled, DIALECTS};

#[derive(Clone, Debug, Serialize, Deserialize)]
pub struct Case {
    pub source: String,
}

const UNKNOWN: &[&str] = &["sql.oracle", "sql.SQLite", "sqlite", "sql.", "sql.post gres"];

pub fn gen_case(t: &mut Tape) -> Case {
    let mut cfg = GenCfg::general();
    cfg.bias = if t.chance(1, 2) { Bias::General } else { Bias::Sort };
    // dialect-sensitive constructs on purpose: takes, `/`, `//`, f-strings, group-take
    cfg.hazards = vec!["int_divi", "open_take"];
    let c = c01::gen_case(t, cfg);
    let mut source = print::program(&c.prog).trim_end().to_string();
    // dialect-sensitive tails: std.math / std.text / date literals / casts / `loop` (WITH RECURSIVE)
    if t.chance(1, 2) {
        source.push_str(*t.pick(crate::prop::c07::EXTRAS));
    }
    // a table s-string whose SQL uses one dialect's identifier quoting (the compiler looks into
    // such SQL to learn the column names), joined at the end so that its columns are in the result
    if t.chance(1, 4) {
        let frag = *t.pick(&[
            "s\"SELECT [id], [a] FROM t1\"",
            "s\"SELECT `id`, `a` FROM t1\"",
            "s\"SELECT \\\"id\\\", a FROM t1\"",
            "s\"SELECT id, a FROM [t1]\"",
            "s\"SELECT id, a FROM t1\"",
            "s\"SELECT TOP 5 id, a FROM t1\"",
        ]);
        source.push_str(&format!(" | join side:left zs = (from {frag}) (true)"));
    }
    // names of the `prql` std module (the header is registered under the same name)
    if t.chance(1, 5) {
        source.push_str(*t.pick(&[" | derive {zver = prql.version}", " | derive {zver = std.prql.version}", " | filter prql.version != \"0\""]));
    }
    source.push('\n');
    Case { source }
}

/// names that are not targets although they contain or resemble one
pub fn near_miss_names() -> Vec<String> {
    let mut v = vec![];
    for dn in DIALECTS.iter().map(|d| d.0).chain(std::iter::once("any")) {
        let up = dn.to_uppercase();
        let mut cap = dn.to_string();
        if let Some(c) = cap.get_mut(0..1) {
            c.make_ascii_uppercase();
        }
        v.extend([
            format!("sql.{dn}.x"),
            format!("sql.{dn}.{dn}"),
            format!("sql.{dn}.any"),
            format!("sql.{dn}x"),
            format!("sql.x{dn}"),
            format!("x.sql.{dn}"),
            format!("sql.sql.{dn}"),
            format!("sql.{up}"),
            format!("sql.{cap}"),
            format!("SQL.{dn}"),
            format!("{dn}"),
            format!("sqlx.{dn}"),
            format!("sql.{dn}.x.y"),
        ]);
    }
    v
}

fn show(c: &Compiled) -> String {
    match c {
        Compiled::Sql(s) => format!("OK {s}"),
        Compiled::Err(r) => format!("ERR {}", r.join(" | ")),
        Compiled::Panic(p) => format!("PANIC {}:{}", p.file, p.line),
    }
}

use crate::util::genuinely_different;

pub fn check(case: &Case, _known: &Known) -> Outcome {
    let p = &case.source;
    let with_header = |h: &str| format!("prql target:{h}\n\n{p}");
    let mut out = Outcome::pass();
    out.key = hash_of(p);
    let mut nondet = false;
    // by option
    let by_opt: Vec<(String, String)> = DIALECTS
        .iter()
        .map(|(n, d)| (n.to_string(), show(&util::compile(p, Some(*d)))))
        .collect();
    let generic = by_opt.iter().find(|(n, _)| n == "generic").unwrap().1.clone();
    if generic.starts_with("PANIC") {
        return Outcome::skip("compiler_panic").class("compiler_panic");
    }
    let fail = |what: &str, detail: Value| Outcome::fail(what, detail);
    // neither option nor header => generic
    let neither = show(&util::compile(p, None));
    if neither != generic
        && { nondet = true; true }
        && genuinely_different(&|| show(&util::compile(p, None)), &|| show(&util::compile(p, Some(prqlc::sql::Dialect::Generic))))
    {
        return fail(
            "no option and no header does not compile as generic",
            json!({"source": p, "neither": neither, "generic": generic}),
        );
    }
    // header `sql.any` => generic
    let any = show(&util::compile(&with_header("sql.any"), None));
    if any != generic
        && { nondet = true; true }
        && genuinely_different(&|| show(&util::compile(&with_header("sql.any"), None)), &|| show(&util::compile(p, Some(prqlc::sql::Dialect::Generic))))
    {
        return fail("header sql.any with no option does not compile as generic", json!({"source": p, "got": any, "generic": generic}));
    }
    for (dn, dsql) in &by_opt {
        // A: option D == header D with no option
        let hsrc = with_header(&format!("sql.{dn}"));
        let h = show(&util::compile(&hsrc, None));
        let d = util::dialect_by_name(dn);
        if &h != dsql
            && { nondet = true; true }
            && genuinely_different(&|| show(&util::compile(&hsrc, None)), &|| show(&util::compile(p, d)))
        {
            return fail(
                "header target with no option differs from the same target given as option",
                json!({"source": p, "dialect": dn, "by_option": dsql, "by_header": h}),
            );
        }
    }
    // B: an explicit option overrides any header (known, sql.any, unknown)
    for (dn, d) in DIALECTS {
        let expect = &by_opt.iter().find(|(n, _)| n == dn).unwrap().1;
        let mut headers: Vec<String> = DIALECTS.iter().map(|(hn, _)| format!("sql.{hn}")).collect();
        headers.push("sql.any".into());
        // an unknown header is a different header too: the option decides (two names per dialect)
        headers.push("sql.nosuchdb".into());
        headers.push(format!("sql.{dn}x"));
        for h in headers {
            let hsrc = with_header(&h);
            let got = show(&util::compile(&hsrc, Some(*d)));
            if &got != expect
                && { nondet = true; true }
                && genuinely_different(&|| show(&util::compile(&hsrc, Some(*d))), &|| show(&util::compile(p, Some(*d))))
            {
                return fail(
                    "explicit option does not override the header target",
                    json!({"source": p, "option": dn, "header": h, "expected": expect, "got": got}),
                );
            }
        }
    }
    // D: unknown header with no option is an error; E: Target::from_str rejects it
    // the fixed unknown names, plus six near-misses of valid names chosen by the program's hash:
    // an extra path segment after / before a valid name, a suffix, a changed case, a missing or
    // doubled prefix
    let mut unknown: Vec<String> = UNKNOWN.iter().map(|s| s.to_string()).collect();
    let near = near_miss_names();
    let h0 = hash_of(p) as usize;
    for k in 0..6 {
        unknown.push(near[(h0 / 7 + k * 37) % near.len()].clone());
    }
    for u in &unknown {
        let got = util::compile(&with_header(u), None);
        if let Compiled::Sql(s) = &got {
            return fail("unknown header target is accepted", json!({"source": p, "header": u, "sql": s}));
        }
        if prqlc::Target::from_str(u).is_ok() {
            return fail("Target::from_str accepts an unknown name", json!({"name": u}));
        }
    }
    for (dn, _) in DIALECTS {
        if prqlc::Target::from_str(&format!("sql.{dn}")).is_err() {
            return fail("Target::from_str rejects a dialect name", json!({"name": dn}));
        }
    }
    // G: the staged entry point with an explicit main path (`pl_to_rq_tree`, as the CLI's `compile
    // <file> - <main>` uses it): the header target of the program must reach the RQ whichever way the
    // main pipeline is named (module path `[]`, or the pipeline itself `["main"]`)
    {
        let h0 = hash_of(p) as usize;
        for k in 0..3 {
            let (dn, d) = DIALECTS[(h0 / 11 + k * 5) % DIALECTS.len()];
            let expect = &by_opt.iter().find(|(n, _)| *n == dn).unwrap().1;
            let hsrc = with_header(&format!("sql.{dn}"));
            for main_path in [vec![], vec!["main".to_string()]] {
                let staged = |src: &str, opt: Option<prqlc::sql::Dialect>| -> String {
                    let r = catch(|| -> Result<String, prqlc::ErrorMessages> {
                        let pl = prqlc::prql_to_pl(src)?;
                        let rq = prqlc::pl_to_rq_tree(pl, &main_path, &["default_db".to_string()])?;
                        prqlc::rq_to_sql(rq, &if opt.is_some() { util::opts(opt) } else { util::opts(None).with_target(prqlc::Target::Sql(None)) })
                    });
                    match r {
                        Ok(Ok(s)) => format!("OK {s}"),
                        Ok(Err(e)) => format!("ERR {}", util::err_reasons(&e).join(" | ")),
                        Err(pn) => format!("PANIC {}:{}", pn.file, pn.line),
                    }
                };
                let got = staged(&hsrc, None);
                // (the staged path may word an error differently; compared only when both produce SQL)
                if got.starts_with("OK") && expect.starts_with("OK") && &got != expect && genuinely_different(&|| staged(&hsrc, None), &|| show(&util::compile(p, Some(d)))) {
                    return fail(
                        "header target is lost on the staged path with an explicit main path",
                        json!({"source": p, "dialect": dn, "main_path": main_path, "by_option": expect, "staged_by_header": got}),
                    );
                }
                if got.starts_with("OK") != expect.starts_with("OK") && !got.starts_with("PANIC") && main_path.is_empty() {
                    return fail(
                        "the staged path accepts / rejects a program differently from compile()",
                        json!({"source": p, "dialect": dn, "main_path": main_path, "by_option": expect, "staged_by_header": got}),
                    );
                }
            }
            // unknown header on the staged path: an error, whichever main path
            let bad = with_header("sql.nosuchdb");
            for main_path in [vec![], vec!["main".to_string()]] {
                let r = catch(|| prqlc::prql_to_pl(&bad).and_then(|pl| prqlc::pl_to_rq_tree(pl, &main_path, &["default_db".to_string()])).and_then(|rq| prqlc::rq_to_sql(rq, &util::opts(None).with_target(prqlc::Target::Sql(None)))));
                if let Ok(Ok(sql)) = r {
                    return fail("unknown header target is accepted on the staged path", json!({"source": p, "main_path": main_path, "sql": sql}));
                }
            }
        }
    }
    // F: the header never changes which programs the resolver accepts
    let accept = |src: &str| -> Option<bool> {
        catch(|| prqlc::prql_to_pl(src).and_then(prqlc::pl_to_rq).is_ok()).ok()
    };
    let base = accept(p);
    for h in ["sql.any", "sql.sqlite", "sql.mssql", "sql.clickhouse", "sql.bigquery", "sql.nosuchdb", "mssql"] {
        let a = accept(&with_header(h));
        if a != base {
            return fail(
                "the header target changes whether the resolver accepts the program",
                json!({"source": p, "header": h, "without": base, "with": a}),
            );
        }
    }
    if nondet {
        out.classes.push("nondeterministic_output_seen".into());
    }
    let differing = by_opt.iter().filter(|(_, s)| s != &generic).count();
    out.nontrivial = differing > 0 && generic.starts_with("OK");
    out.classes.push(format!("dialects_differing_from_generic={}", differing.min(11)));
    if generic.starts_with("ERR") {
        out.classes.push("rejected_under_generic".into());
    }
    out.sample = Some(json!({"prql": p, "dialects_differing_from_generic": differing}));
    out
}

pub fn replay_any(check_name: &str, case: &Value, known: &Known) -> Option<Outcome> {
    if check_name == "near-miss-names" {
        let u = case.as_str()?;
        if prqlc::Target::from_str(u).is_ok() {
            return Some(Outcome::fail("Target::from_str accepts an unknown name", json!({"name": u})));
        }
        let src = format!("prql target:{u}\n\nfrom a | take 3\n");
        if let Compiled::Sql(s) = util::compile(&src, None) {
            return Some(Outcome::fail("unknown header target is accepted", json!({"header": u, "sql": s})));
        }
        return Some(Outcome::pass());
    }
    let c: Case = serde_json::from_value(case.clone()).ok()?;
    Some(check(&c, known))
}

pub fn run(ctx: &Ctx) -> i32 {
    ctx.run_replays(|c, case| replay_any(c, case, &ctx.known));
    ctx.shrink_iters.store(150, std::sync::atomic::Ordering::Relaxed);
    ctx.tape_search("option-header-matrix", ctx.n(400, 15_000), 300, gen_case, |c| {
        check(c, &ctx.known)
    });
    // every near-miss of a valid target name (enumerated completely, one small program): rejected
    // by Target::from_str and as a header with no option
    ctx.enumerate("near-miss-names", near_miss_names(), |u: &String| {
        let mut o = Outcome::pass();
        o.key = hash_of(u);
        o.nontrivial = true;
        if prqlc::Target::from_str(u).is_ok() {
            return Outcome::fail("Target::from_str accepts an unknown name", json!({"name": u}));
        }
        let src = format!("prql target:{u}\n\nfrom a | take 3\n");
        if let Compiled::Sql(s) = util::compile(&src, None) {
            return Outcome::fail("unknown header target is accepted", json!({"source": "from a | take 3\n", "header": u, "sql": s}));
        }
        o
    });
    ctx.set_extra("compiles_per_case", json!(12 + 2 + 12 + 12 * 13 + UNKNOWN.len() + 6));
    ctx.stats.lock().unwrap().exhaustive = Some(false);
    ctx.finish(
        "generated programs biased to dialect-sensitive constructs (take, /, //, f-strings, group-take, distinct) x the full matrix option in {none, 12 dialects} x header in {absent, sql.any, 12 dialects, 5 unknown names} (the matrix is enumerated completely for every program; programs are sampled). non-trivial = the program compiles under generic and its SQL differs from generic under >= 1 dialect; distinct = source text",
        &["signature comment off (it embeds the target by design)", "an unknown header together with an explicit option is not constrained by the statement"],
    )
}
