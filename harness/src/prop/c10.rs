//! C10 — ill-scoped programs are rejected, never compiled to something else.

use serde::{Deserialize, Serialize};
use serde_json::{json, Value};

use crate::known::Known;
use crate::model::gen::{Gen, GenCfg};
use crate::model::print;
use crate::runner::{hash_of, Ctx, Outcome};
use crate::tape::Tape;
use crate::util::{self, Compiled};

#[derive(Clone, Debug, Serialize, Deserialize)]
pub struct Case {
    /// well-scoped base program (must compile)
    pub base: String,
    /// the same program with exactly one scope-breaking edit
    pub broken: String,
    pub edit: String,
    pub base_steps: usize,
    /// E2 only: the name is a computed / aliased column on the left, on the right, and the
    /// right-hand sub-pipeline has no relation alias
    #[serde(default)]
    pub e2_unqualified_both: bool,
}

pub const F_E2: &str = "C10-ambiguous-computed-name-unaliased-join";


pub fn gen_case(t: &mut Tape) -> Case {
    let mut cfg = GenCfg::general();
    cfg.allow_wild = false; // frames fully known everywhere
    cfg.allow_append = false;
    cfg.max_steps = 6;
    let mut g = Gen::new(t, cfg);
    // sometimes two of the table columns are named like functions of the standard library that
    // the generator itself never calls: out of frame such a name resolves to the function
    if g.t.chance(1, 3) {
        let mut names = crate::model::gen::Names::plain();
        const STD_NAMES: &[&str] = &["stddev", "any", "all", "concat_array", "add", "neg", "coalesce", "tuple_every", "read_csv", "mul"];
        let i = g.t.choose(names.cols.len());
        let mut j = g.t.choose(names.cols.len());
        if j == i {
            j = (i + 1) % names.cols.len();
        }
        let a = g.t.choose(STD_NAMES.len());
        let mut b = g.t.choose(STD_NAMES.len());
        if b == a {
            b = (a + 1) % STD_NAMES.len();
        }
        names.cols[i] = STD_NAMES[a].to_string();
        names.cols[j] = STD_NAMES[b].to_string();
        g = g.with_names(names);
    }
    let all_names: Vec<String> = std::iter::once(g.names.id.clone()).chain(g.names.cols.iter().cloned()).collect();
    g.gen_db();
    g.gen_funcs();
    g.gen_lets();
    let ns = 1 + g.t.choose(6);
    let (main, frame, _ord) = g.gen_pipeline(ns, 1);
    let funcs = g.funcs.clone();
    let lets = g.lets.clone();
    let db = g.db.clone();
    let t = g.t;
    let prog = crate::model::ast::Prog {
        funcs: funcs.clone(),
        lets,
        main,
        surface: Default::default(),
    };
    let base = print::program(&prog).trim_end().to_string();
    let names: Vec<String> = frame.cols.iter().filter_map(|c| c.name.clone()).collect();
    let dropped: Vec<&str> = all_names.iter().map(|s| s.as_str()).filter(|n| !names.iter().any(|m| m == n)).collect();
    // valid continuation so that the edit is not the last step
    let tail = *t.pick(&[" | take 10", " | filter true", " | take 1..5 | filter true", ""]);
    let kind = t.choose(5);
    let mut e2_flag = false;
    let (edit, step): (String, String) = match kind {
        0 if !dropped.is_empty() => {
            let n = *t.pick(&dropped);
            // (a name that is also a std function is a legal value inside a case arm that is
            // statically removed: the two case-arm edits use ordinary column names only)
            let is_std = ["stddev", "any", "all", "concat_array", "add", "neg", "coalesce", "tuple_every", "read_csv", "mul"].contains(&n);
            let k = t.choose(8);
            let k = if is_std && k >= 6 { 1 } else { k };
            match k {
                6 => (
                    format!("E1 dropped column `{n}` in a case arm after the catch-all"),
                    format!(" | derive {{zz = case [true => 0, 1 == 1 => {n}]}}"),
                ),
                7 => (
                    format!("E1 dropped column `{n}` in a case arm with a false condition"),
                    format!(" | derive {{zz = case [false => {n}, true => 0]}}"),
                ),
                0 => (format!("E1 dropped column `{n}` in filter"), format!(" | filter {n} == {n}")),
                1 => (format!("E1 dropped column `{n}` in derive"), format!(" | derive {{zz = {n}}}")),
                2 => (format!("E1 dropped column `{n}` in sort"), format!(" | sort {{{n}}}")),
                3 => (format!("E1 dropped column `{n}` in select"), format!(" | select {{{n}}}")),
                4 => (
                    format!("E1 dropped column `{n}` as group key"),
                    format!(" | group {{{n}}} (aggregate {{zz = count this}})"),
                ),
                _ => (
                    format!("E1 dropped column `{n}` in join condition"),
                    format!(" | join zr = (from {} | select {{zc = 1}}) ({n} == zc)", db.tables[0].name),
                ),
            }
        }
        1 => {
            // a bare name present on both sides of a join of two known frames. The name may be a
            // plain column or a computed / aliased one on either side, and the right side may or
            // may not get a relation alias.
            if names.is_empty() {
                ("E5 scalar in from".into(), String::new())
            } else {
                let n = t.pick(&names).clone();
                let left_computed = frame.cols.iter().any(|c| c.name.as_ref() == Some(&n) && c.rel.is_none());
                let tb = db.tables[t.choose(db.tables.len())].clone();
                let has = tb.cols.iter().any(|c| c.name == n);
                let first_col = tb.cols[0].name.clone();
                let right_plain = has && t.chance(1, 2);
                let right_item = if right_plain {
                    crate::model::print::ident(&n)
                } else {
                    match t.choose(3) {
                        0 => format!("{} = {}", crate::model::print::ident(&n), first_col),
                        1 => format!("{} = 1 + 2", crate::model::print::ident(&n)),
                        _ => format!("{} = {} ?? {}", crate::model::print::ident(&n), first_col, first_col),
                    }
                };
                let alias = if t.chance(1, 2) { "zr = " } else { "" };
                // recorded finding: with an un-aliased right-hand sub-pipeline the name is not
                // reported as ambiguous when (a) it is computed on both sides, or (b) both sides
                // come from the same table (same relation name)
                let same_table = frame.cols.iter().any(|c| c.rel.as_deref() == Some(tb.name.as_str()));
                e2_flag = alias.is_empty() && ((left_computed && !right_plain) || same_table);
                let nn = crate::model::print::ident(&n);
                // the bare name is used after the join, or inside the join condition itself (where
                // `this` and `that` are both in scope)
                // a qualified way to name one of the two same-named columns (for group keys)
                let qual: Option<String> = if !alias.is_empty() {
                    Some("zr".to_string())
                } else {
                    frame.cols.iter().find(|c| c.name.as_ref() == Some(&n)).and_then(|c| c.rel.clone()).map(|r| crate::model::print::ident(&r))
                };
                let mut k = t.choose(9);
                if k >= 7 && qual.is_none() {
                    k -= 7;
                }
                let use_ = match k {
                    // the ambiguity must survive a group keyed on one of the two columns whose pipeline
                    // keeps the rows (both columns are still in the frame afterwards)
                    7 => format!(" | group {{{}.{nn}}} (take 1) | select {{{nn}}}", qual.clone().unwrap()),
                    8 => format!(" | group {{{}.{nn}}} (sort {{{}.{nn}}} | take 1) | filter {nn} == {nn}", qual.clone().unwrap(), qual.clone().unwrap()),
                    0 => format!(" | derive {{zz = {nn}}}"),
                    1 => format!(" | filter {nn} == {nn}"),
                    2 => format!(" | sort {{{nn}}}"),
                    3 => format!(" | select {{{nn}}}"),
                    _ => String::new(),
                };
                let side = *t.pick(&["", "side:left ", "side:full "]);
                let cond = match k {
                    4 => format!("{nn} == {nn}"),
                    5 => format!("{nn} != null"),
                    6 => format!("true && ({nn} ?? {nn}) == {nn}"),
                    _ => "true".to_string(),
                };
                (
                    if k >= 4 { format!("E2 ambiguous bare name `{n}` inside the join condition") } else { format!("E2 ambiguous bare name `{n}` after join") },
                    format!(" | join {side}{alias}(from {} | select {{{right_item}}}) ({cond}){use_}", tb.name),
                )
            }
        }
        2 => match t.choose(5) {
            0 => ("E3 surplus positional argument to take".into(), " | take 2 3".into()),
            1 => ("E3 surplus positional argument to filter".into(), " | filter true false".into()),
            2 => ("E3 surplus positional argument to sort".into(), " | sort {1} {2}".into()),
            3 => ("E3 surplus positional argument to aggregate".into(), " | aggregate {zz = count this} {zy = count this}".into()),
            _ => {
                if let Some(f) = funcs.first() {
                    let n = f.params.iter().filter(|p| p.default.is_none()).count();
                    let args: Vec<String> = (0..n + 1).map(|i| i.to_string()).collect();
                    (
                        "E3 surplus positional argument to a user function".into(),
                        format!(" | derive {{zz = ({} {})}}", f.name, args.join(" ")),
                    )
                } else {
                    ("E3 surplus positional argument to select".into(), " | select {zz = 1} {zy = 2}".into())
                }
            }
        },
        3 => match t.choose(4) {
            0 => ("E4 unknown named argument to take".into(), " | take zzz:1 2".into()),
            1 => ("E4 unknown named argument to sort".into(), " | sort zzz:true {1}".into()),
            2 => ("E4 unknown named argument to join".into(), format!(" | join zzz:left (from {} | select {{zc = 1}}) (true)", db.tables[0].name)),
            _ => {
                if let Some(f) = funcs.first() {
                    let n = f.params.iter().filter(|p| p.default.is_none()).count();
                    let args: Vec<String> = (0..n).map(|i| i.to_string()).collect();
                    (
                        "E4 unknown named argument to a user function".into(),
                        format!(" | derive {{zz = ({} zzq:1 {})}}", f.name, args.join(" ")),
                    )
                } else {
                    ("E4 unknown named argument to filter".into(), " | filter zzz:1 true".into())
                }
            }
        },
        _ => match t.choose(5) {
            0 => ("E5 scalar joined as a relation".into(), " | join 5 (true)".into()),
            1 => ("E5 scalar appended as a relation".into(), " | append 3".into()),
            2 => ("E5 text appended as a relation".into(), " | append \"u\"".into()),
            3 => ("E5 arithmetic expression joined as a relation".into(), " | join (1 + 1) (true)".into()),
            _ => ("E5 scalar in from".into(), String::new()),
        },
    };
    let broken = if step.is_empty() {
        // replace the main pipeline's source by a scalar
        match base.rfind("\nfrom ").map(|i| i + 1).or(if base.starts_with("from ") { Some(0) } else { None }) {
            Some(i) => {
                let rest = &base[i + 5..];
                let end = rest.find([' ', '\n']).unwrap_or(rest.len());
                format!("{}from 5{}", &base[..i], &rest[end..])
            }
            None => format!("{base} | join 5 (true)"),
        }
    } else {
        format!("{base}{step}{tail}")
    };
    Case {
        base: format!("{base}\n"),
        broken: format!("{broken}\n"),
        edit,
        base_steps: ns,
        e2_unqualified_both: e2_flag,
    }
}

pub fn check(case: &Case, known: &Known) -> Outcome {
    match util::compile(&case.base, None) {
        Compiled::Sql(_) => {}
        Compiled::Err(r) => {
            return Outcome::skip(&format!(
                "base_rejected: {}",
                util::reason_class(r.first().map(|s| s.as_str()).unwrap_or(""))
            ))
            .class("base_rejected")
        }
        Compiled::Panic(_) => return Outcome::skip("base_panics").class("compiler_panic"),
    }
    let mut out = Outcome::pass();
    out.key = hash_of(&case.broken);
    out.classes.push(case.edit.split(' ').next().unwrap_or("?").to_string());
    match util::compile(&case.broken, None) {
        Compiled::Err(r) => {
            out.nontrivial = case.base_steps >= 3;
            out.sample = Some(json!({"prql": case.broken, "edit": case.edit, "error": r.first()}));
            out
        }
        Compiled::Panic(p) => Outcome::skip(&format!("compiler_panic: {}:{}", p.file, p.line)).class("compiler_panic"),
        Compiled::Sql(sql) => {
            let mut o = Outcome::fail(
                "ill-scoped program is accepted",
                json!({"edit": case.edit, "source": case.broken, "sql": sql}),
            );
            if case.e2_unqualified_both && known.is_open(F_E2) {
                o.verdict = crate::runner::Verdict::Known(F_E2.into(), case.edit.clone());
            }
            o
        }
    }
}

// ---------------------------------------------------------------------------------------
// A bare name while two relations of *unknown* columns are in scope may belong to either: it is
// rejected, whatever the program said about that name earlier (enumerated completely).

#[derive(Clone, Debug, Serialize, Deserialize)]
pub struct OpenCase {
    pub source: String,
}

pub fn open_relation_cases() -> Vec<OpenCase> {
    let mut v = vec![];
    for n in ["a", "x", "total"] {
        for hist in ["", " | filter t1.N > 0", " | derive {zq = t1.N + 1}", " | filter N > 0", " | sort {t1.N}", " | derive {zq = t2x.N}"] {
            for join in ["join t2 (==id)", "join side:left t2 (t1.id == t2.id)", "join zr = t2 (true)"] {
                for use_ in ["select {N}", "filter N > 0", "sort {N}", "derive {zw = N + 1}", "group {N} (aggregate {zn = count this})"] {
                    // history before the join (t1 only) or after it (qualified)
                    let (before, after) = if hist.contains("t2x") { ("", hist.replace("t2x", if join.contains("zr") { "zr" } else { "t2" })) } else if hist.contains("t1.") || hist.is_empty() { ("", hist.to_string()) } else { (hist, String::new()) };
                    let src = format!("from t1{before} | {join}{after} | {use_}\n").replace('N', n);
                    v.push(OpenCase { source: src });
                }
            }
        }
    }
    // two instances of one table under different names: a bare column name belongs to both
    for n in ["a", "x"] {
        for join in ["join zm = t1 (ze.id == zm.id)", "join side:left zm = t1 (ze.id == zm.a)", "join zm = (from t1 | select {id, N}) (ze.id == zm.id)", "join zm = (from t1 | filter id > 0) (true)"] {
            for use_ in ["select {N}", "filter N > 0", "sort {N}", "derive {zw = N + 1}", "select {ze.id, N}"] {
                v.push(OpenCase { source: format!("from ze = t1 | {join} | {use_}\n").replace('N', n) });
            }
        }
    }
    v
}

pub fn check_open(c: &OpenCase, _known: &Known) -> Outcome {
    let mut out = Outcome::pass();
    out.key = hash_of(&c.source);
    out.nontrivial = true;
    out.classes.push("open_relations".into());
    match util::compile(&c.source, None) {
        Compiled::Sql(sql) => Outcome::fail(
            "ill-scoped program is accepted",
            json!({"edit": "bare name while two relations of unknown columns are in scope", "broken": c.source, "sql": sql}),
        ),
        Compiled::Err(_) => out,
        Compiled::Panic(_) => Outcome::skip("compiler_panic").class("compiler_panic"),
    }
}

pub fn replay_any(_c: &str, case: &Value, known: &Known) -> Option<Outcome> {
    if _c == "open-relations" {
        let c: OpenCase = serde_json::from_value(case.clone()).ok()?;
        return Some(check_open(&c, known));
    }
    let c: Case = serde_json::from_value(case.clone()).ok()?;
    Some(check(&c, known))
}

pub fn run(ctx: &Ctx) -> i32 {
    ctx.run_replays(|c, case| replay_any(c, case, &ctx.known));
    ctx.enumerate("open-relations", open_relation_cases(), |c| check_open(c, &ctx.known));
    ctx.tape_search("one-edit", ctx.n(40_000, 1_500_000), 400, gen_case, |c| check(c, &ctx.known));
    if !ctx.quick() {
        ctx.fuzz_campaign("tape_c10", ctx.fuzz_secs(180), 1200);
    }
    ctx.finish(
        "well-scoped generated programs with fully known frames (every source projected, no wildcard relation) that compile, plus exactly one scope-breaking edit: E1 reference to a base column the frame has dropped (filter / derive / sort / select / group key / join condition), E2 bare name present on both sides of a join of two known relations, E3 one surplus positional argument (take, filter, sort, aggregate, user function), E4 an unknown named argument (take, sort, join, user function), E5 a scalar where a relation is required (from, join, append); usually followed by further valid transforms. Oracle: compile returns Err. non-trivial = base has >= 3 steps; distinct = broken source",
        &["a panic is C12's subject and is not counted here", "names used for dropped columns are never names of let-tables, functions or std members of the case"],
    )
}
