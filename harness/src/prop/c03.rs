//! C03 — sort order persists through the pipeline and take selects by position.

use serde::{Deserialize, Serialize};
use serde_json::{json, Value};

use crate::known::Known;
use crate::model::ast::Step;
use crate::model::exec;
use crate::model::gen::{Bias, GenCfg};
use crate::model::print;
use crate::model::val::{cell_eq, keys_eq};
use crate::prop::c01::{self, Case};
use crate::runner::{Ctx, Outcome, Verdict};
use crate::tape::Tape;
use crate::util::{self, Compiled};

#[derive(Clone, Debug, Serialize, Deserialize)]
pub struct Case3 {
    pub base: Case,
    /// positions for the reference-free slice check (1-based, inclusive)
    pub lo: i64,
    pub hi: i64,
}

fn cfg() -> GenCfg {
    let mut c = GenCfg::general();
    c.bias = Bias::Sort;
    c.max_steps = 8;
    c
}

pub fn gen_case(t: &mut Tape, cfg: GenCfg) -> Case3 {
    let base = c01::gen_case(t, cfg);
    let lo = t.range(1, 4);
    let hi = lo + t.range(0, 3);
    Case3 { base, lo, hi }
}

fn has_step(steps: &[Step], f: &dyn Fn(&Step) -> bool) -> bool {
    steps.iter().any(|s| {
        f(s) || match s {
            Step::Group { inner, .. } | Step::Window { inner, .. } => has_step(inner, f),
            _ => false,
        }
    })
}

pub fn check(c: &Case3, known: &Known, hazard: bool) -> Outcome {
    let (mut out, det) = c01::judge(&c.base, known);
    if hazard {
        if let Verdict::Fail(_, detail) = &out.verdict {
            let failure = detail.get("error").and_then(|e| e.as_str()).unwrap_or("").to_string();
            if let Some((id, what)) = c01::attribute_with(&c.base.flags, known, &failure) {
                out.verdict = Verdict::Known(id, what);
            }
        }
        out.nontrivial = false;
        return out;
    }
    let Some(det) = det else { return out };
    let steps = &c.base.prog.main.steps;
    let sorted = has_step(steps, &|s| matches!(s, Step::Sort(_)))
        || c.base.prog.lets.iter().any(|l| has_step(&l.pipe.steps, &|s| matches!(s, Step::Sort(_))));
    let takes = has_step(steps, &|s| matches!(s, Step::Take { .. }));
    let (ctes, ..) = c01::sql_shape(&det.sql);
    let refr = &det.reference;
    let mut classes = 1;
    for w in refr.rows.windows(2) {
        if !keys_eq(&w[0].okey, &w[1].okey) {
            classes += 1;
        }
    }
    let total = refr.ordered() && classes == refr.rows.len();
    out.nontrivial = sorted && refr.ordered() && refr.rows.len() >= 2 && classes >= 2 && (takes || ctes > 0);
    if refr.ordered() {
        out.classes.push("order_in_effect_at_end".into());
    }
    if takes {
        out.classes.push("has_take".into());
    }
    if total {
        out.classes.push("total_order".into());
    }
    // reference-free invariant: for a total order, `P | take lo..hi` = rows lo..hi of P's own result
    if total && c.base.target == "sqlite" {
        let mut p2 = c.base.prog.clone();
        p2.main.steps.push(Step::Take {
            lo: Some(c.lo),
            hi: Some(c.hi),
            single: false,
        });
        let src2 = print::program(&p2);
        match util::compile(&src2, util::dialect_by_name(&c.base.target)) {
            Compiled::Sql(sql2) => match exec::run(&c.base.db, &sql2) {
                Ok(r2) => {
                    out.classes.push("slice_checked".into());
                    let n = det.res.rows.len() as i64;
                    let s = (c.lo - 1).min(n).max(0) as usize;
                    let e = c.hi.min(n).max(0) as usize;
                    let expect: &[Vec<_>] = if s < e { &det.res.rows[s..e] } else { &[] };
                    // column order is C05's subject: align the two results by column name
                    let perm: Option<Vec<usize>> = {
                        let mut p = vec![];
                        let mut ok = det.res.cols.len() == r2.cols.len();
                        for n in &det.res.cols {
                            let hits: Vec<usize> = r2.cols.iter().enumerate().filter(|(_, m)| *m == n).map(|(i, _)| i).collect();
                            if hits.len() == 1 && !p.contains(&hits[0]) {
                                p.push(hits[0]);
                            } else {
                                ok = false;
                            }
                        }
                        if ok { Some(p) } else { None }
                    };
                    let same = expect.len() == r2.rows.len()
                        && expect.iter().zip(&r2.rows).all(|(a, b)| {
                            a.len() == b.len()
                                && (0..a.len()).all(|i| {
                                    let j = perm.as_ref().map(|p| p[i]).unwrap_or(i);
                                    cell_eq(&a[i], &b[j])
                                })
                        });
                    if !same {
                        out.verdict = Verdict::Fail(
                            "`P | take a..b` is not rows a..b of P's own result".into(),
                            json!({"source": src2, "sql": sql2, "base_sql": det.sql, "lo": c.lo, "hi": c.hi,
                                   "base_rows": det.res.rows.iter().map(|r| r.iter().map(|v| v.show()).collect::<Vec<_>>()).collect::<Vec<_>>(),
                                   "got_rows": r2.rows.iter().map(|r| r.iter().map(|v| v.show()).collect::<Vec<_>>()).collect::<Vec<_>>()}),
                        );
                    }
                }
                Err(e) => {
                    out.verdict = Verdict::Fail(
                        "emitted SQL fails on SQLite".into(),
                        json!({"source": src2, "sql": sql2, "error": e.msg()}),
                    );
                }
            },
            Compiled::Err(_) => out.classes.push("slice_rejected".into()),
            Compiled::Panic(_) => out.classes.push("slice_panic".into()),
        }
    }
    out
}

pub fn replay_any(check_name: &str, case: &Value, known: &Known) -> Option<Outcome> {
    if check_name == "probe" {
        return c01::replay_any(check_name, case, known);
    }
    if check_name == "distinct-on-order" {
        let c: DistinctOnCase = serde_json::from_value(case.clone()).ok()?;
        return Some(check_distinct_on(&c, known));
    }
    let c: Case3 = serde_json::from_value(case.clone()).ok()?;
    Some(check(&c, known, check_name.starts_with("hazard/")))
}

// ---------------------------------------------------------------------------------------
// `group k (sort s | take 1)` under the dialects that implement it with DISTINCT ON (not
// executable here): the row at position 1 of each group is the first row of the block's own
// ORDER BY, which therefore has to be there, begin with the keys and continue with the sort, in
// whatever context the group stands (operand of a set operation, inside a CTE, before a join ...).

#[derive(Clone, Debug, serde::Serialize, serde::Deserialize)]
pub struct DistinctOnCase {
    pub source: String,
    pub dialect: String,
}

pub fn gen_distinct_on_case(t: &mut crate::tape::Tape) -> DistinctOnCase {
    let keys = *t.pick(&["a", "a, b", "b"]);
    // (the inner sort may mention a group key, in any position)
    let sort = *t.pick(&["-id", "b, -id", "id", "-b, id", "(a + id)", "id, a", "-id, -a, b", "a, -id", "b, a, id"]);
    let pre = *t.pick(&["", " | filter id > 0", " | derive {c = a + b}"]);
    // (over a relation of unknown columns the inner pipeline may also name a group key)
    let grp = if t.chance(1, 3) {
        format!("from t1{} | group {{{keys}}} (sort {{{sort}}} | take 1)", if pre.contains("derive") { "" } else { pre })
    } else {
        format!("from t1 | select {{id, a, b}}{pre} | select {{id, a, b}} | group {{{keys}}} (sort {{{sort}}} | take 1)")
    };
    let other = if grp.starts_with("from t1 | select") { "(from t2 | select {id, a, b})" } else { "t2" };
    let source = match t.choose(14) {
        0 => grp.clone(),
        1 => format!("{grp} | append {other}"),
        2 => format!("{grp} | remove {other}"),
        3 => format!("{grp} | intersect {other}"),
        4 => format!("{grp} | derive {{z = id + 1}}"),
        5 => format!("{grp} | filter id > 1"),
        6 => format!("{grp} | sort {{a}} | take 3"),
        7 => format!("{grp} | join side:left r = (from t2 | select {{k2 = id}}) (id == r.k2)"),
        8 => format!("from t2 | select {{id, a, b}} | append ({grp})"),
        9 => format!("let l = ({grp})\nfrom l | append {other}"),
        10 => format!("{grp} | append ({grp})"),
        11 => format!("{grp} | append {other} | append {other} | filter a > 0"),
        12 => format!("{grp} | append {other} | sort {{id}} | take 5"),
        _ => format!("let l = ({grp} | append {other})\nfrom l | join side:inner t2 (l.id == t2.id) | select {{l.id, t2.a}}"),
    };
    DistinctOnCase { source: format!("{source}\n"), dialect: t.pick(&["postgres", "duckdb", "clickhouse", "redshift"]).to_string() }
}

pub fn check_distinct_on(c: &DistinctOnCase, _known: &Known) -> Outcome {
    let mut out = Outcome::pass();
    out.key = crate::runner::hash_of(&(&c.source, &c.dialect));
    let sql = match crate::util::compile(&c.source, crate::util::dialect_by_name(&c.dialect)) {
        crate::util::Compiled::Sql(s) => s,
        crate::util::Compiled::Err(_) => return Outcome::skip("rejected_by_compiler").class("rejected_by_compiler"),
        crate::util::Compiled::Panic(p) => return Outcome::skip(&format!("compiler_panic {}:{}", p.file, p.line)).class("compiler_panic"),
    };
    if !sql.contains("DISTINCT ON") {
        out.classes.push("no_distinct_on".into());
        return out;
    }
    out.nontrivial = true;
    out.classes.push(format!("distinct_on:{}", c.dialect));
    out.sample = Some(serde_json::json!({"prql": c.source, "dialect": c.dialect, "sql": sql}));
    if let Some(why) = crate::util::distinct_on_lint(&sql, true) {
        return Outcome::fail(
            "a grouped `sort | take 1` is emitted as DISTINCT ON without the ORDER BY that selects the row",
            serde_json::json!({"source": c.source, "dialect": c.dialect, "sql": sql, "why": why}),
        );
    }
    out
}

pub fn run(ctx: &Ctx) -> i32 {
    ctx.run_replays(|c, case| replay_any(c, case, &ctx.known));
    ctx.tape_search("distinct-on-order", ctx.n(3_000, 30_000), 12, gen_distinct_on_case, |c| check_distinct_on(c, &ctx.known));
    let cf = cfg();
    ctx.tape_search(
        "sorted-pipelines",
        ctx.n(50_000, 1_500_000),
        450,
        |t| gen_case(t, cf.clone()),
        |c| check(c, &ctx.known, false),
    );
    for h in ["open_take", "sorted_let", "sorted_group_derive", "compound_agg", "sort_key_rename"] {
        let mut cf = cfg();
        cf.hazards = vec![h];
        ctx.tape_search(
            &format!("hazard/{h}"),
            if h == "sorted_let" { ctx.n(3_000, 100_000) } else { ctx.n(800, 30_000) },
            450,
            |t| gen_case(t, cf.clone()),
            |c| check(c, &ctx.known, true),
        );
    }
    ctx.finish(
        "sort-biased abstract programs (1-3 sort keys asc/desc on base, computed and later-dropped columns; takes n / a..b / ..b; consecutive takes; takes separated by filters; joins, groups and aggregates after the sort) executed on SQLite and compared with the reference interpreter as a sequence of tie classes; plus the reference-free slice invariant `P | take a..b` = rows a..b of P's own result for total orders. non-trivial = a sort is still in effect at the end, the result has >= 2 rows in >= 2 tie classes, and a take or a sub-query occurs; distinct = hash of (source, target, instance)",
        &[
            "NULL placement in ORDER BY is the engine's (SQLite: NULLs first ascending); the book leaves it open",
            "ties are compared as multisets per tie class; a take that cuts through a tie is counted ambiguous, not judged",
        ],
    )
}
