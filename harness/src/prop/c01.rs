//! C01 — compiled SQL returns the relation the pipeline denotes (differential against the
//! reference interpreter, executed on in-process SQLite).

use serde::{Deserialize, Serialize};
use serde_json::{json, Value};

use crate::known::Known;
use crate::model::ast::{Db, Prog};
use crate::model::eval::{compare, Interp, Mismatch};
use crate::model::exec;
use crate::model::gen::{Bias, Gen, GenCfg};
use crate::model::print;
use crate::runner::{hash_of, Ctx, Outcome, Verdict};
use crate::tape::Tape;
use crate::util::{self, Compiled};

#[derive(Clone, Debug, Serialize, Deserialize)]
pub struct Case {
    pub db: Db,
    pub prog: Prog,
    pub target: String,
    #[serde(default)]
    pub flags: Vec<String>,
    /// names of the final frame's columns as the generator tracks them (None = unnamed)
    #[serde(default)]
    pub names: Vec<Option<String>>,
}

pub fn gen_case(t: &mut Tape, cfg: GenCfg) -> Case {
    let target = if t.chance(1, 2) { "generic" } else { "sqlite" }.to_string();
    let mut cfg = cfg;
    if target == "generic" {
        cfg.int_divf = false;
    }
    let g = Gen::new(t, cfg);
    let (db, prog, frame, touched) = g.gen_prog();
    let names = frame.cols.iter().map(|c| c.name.clone()).collect();
    let flags: Vec<String> = touched.iter().map(|s| s.to_string()).chain(prog.has_window().then(|| "uses_window".to_string())).collect();
    Case {
        db,
        prog,
        target,
        flags,
        names,
    }
}

/// Set-operation shapes over relations whose columns the compiler does not know (`from t` used
/// directly): de-duplication of the whole row (`group this (take 1)`) before / after an `append`,
/// on the top, on the bottom, with filters and takes around. The documented meaning: `append` keeps
/// every row of both inputs; only the idiom itself removes duplicates, and only of its own input.
pub fn gen_setop_case(t: &mut Tape) -> Case {
    use crate::model::ast::{ColRef, Expr, Pipeline, Source, SrcKind, Step};
    let target = if t.chance(1, 2) { "generic" } else { "sqlite" }.to_string();
    let mut g = Gen::new(t, GenCfg::general());
    g.gen_db();
    let db = g.db.clone();
    let t = g.t;
    let ti = t.choose(db.tables.len());
    let top = db.tables[ti].clone();
    let this_keys = |cols: &[crate::model::ast::Column]| -> Vec<ColRef> {
        cols.iter().enumerate().map(|(i, c)| ColRef { idx: i, text: if i == 0 { "this".to_string() } else { c.name.clone() } }).collect()
    };
    let distinct = |cols: &[crate::model::ast::Column]| Step::Group { keys: this_keys(cols), inner: vec![Step::Take { lo: None, hi: Some(1), single: true }] };
    // a filter on the key column of the top table (bare name: unique in its frame)
    let filt = |t: &mut Tape, cols: &[crate::model::ast::Column]| -> Step {
        let v = t.range(0, 3);
        Step::Filter(Expr::bin(crate::model::ast::BinOp::Gte, Expr::Col(ColRef { idx: 0, text: cols[0].name.clone() }), Expr::Lit(crate::model::val::Val::Int(v))))
    };
    let mut steps = vec![];
    if t.chance(1, 3) {
        steps.push(filt(t, &top.cols));
    }
    let pre_distinct = t.chance(2, 3);
    if pre_distinct {
        steps.push(distinct(&top.cols));
    }
    // bottom: the same table again, another table projected onto the top's column types, ...
    let nappend = 1 + t.choose(2);
    for _ in 0..nappend {
        // the compiler only accepts an operand of unknown columns under a top of unknown columns:
        // a table of the same shape (or the top table itself), read directly or through filters /
        // the de-duplication idiom, never projected
        let shaped: Vec<usize> = (0..db.tables.len())
            .filter(|j| db.tables[*j].cols.len() == top.cols.len() && db.tables[*j].cols.iter().zip(&top.cols).all(|(a, b)| a.ty == b.ty && a.name == b.name))
            .collect();
        let tj = shaped[t.choose(shaped.len())];
        let bt = db.tables[tj].clone();
        let mut bsteps = vec![];
        if t.chance(1, 2) {
            bsteps.push(filt(t, &bt.cols));
        }
        if t.chance(1, 3) {
            bsteps.push(distinct(&bt.cols));
        }
        let bottom = if bsteps.is_empty() {
            Source { kind: SrcKind::Table(bt.name.clone()), alias: None }
        } else {
            Source { kind: SrcKind::Sub(Box::new(Pipeline { source: Source { kind: SrcKind::Table(bt.name.clone()), alias: None }, steps: bsteps })), alias: None }
        };
        steps.push(Step::Append(Box::new(bottom)));
        if t.chance(1, 4) {
            steps.push(distinct(&top.cols));
        }
    }
    if t.chance(1, 3) {
        steps.push(filt(t, &top.cols));
    }
    let names = top.cols.iter().map(|c| Some(c.name.clone())).collect();
    let prog = Prog { funcs: vec![], lets: vec![], main: Pipeline { source: Source { kind: SrcKind::Table(top.name.clone()), alias: None }, steps }, surface: Default::default() };
    Case { db, prog, target, flags: vec!["setop_wild".into()], names }
}

/// A group key that names a column more than once is the same key: `group {k, k} (take 1)` keeps one
/// row per value of k. Which row is open (no order), the number of rows is not: it is the number of
/// distinct key values of the table.
#[derive(Clone, Debug, Serialize, Deserialize)]
pub struct RepeatedKeyCase {
    pub db: Db,
    pub source: String,
    pub target: String,
    pub expect_rows: usize,
}

pub fn gen_repeated_key_case(t: &mut Tape) -> RepeatedKeyCase {
    let target = if t.chance(1, 2) { "generic" } else { "sqlite" }.to_string();
    let mut g = Gen::new(t, GenCfg::general());
    g.gen_db();
    let db = g.db.clone();
    let t = g.t;
    let tb = db.tables[t.choose(db.tables.len())].clone();
    let ki = 1 + t.choose(tb.cols.len() - 1);
    let mut oi = 1 + t.choose(tb.cols.len() - 1);
    if oi == ki {
        oi = if ki + 1 < tb.cols.len() { ki + 1 } else { 1.max(ki - 1) };
    }
    let (k, o, tn) = (tb.cols[ki].name.clone(), tb.cols[oi].name.clone(), tb.name.clone());
    let (source, key_cols): (String, Vec<usize>) = match t.choose(5) {
        0 => (format!("from {tn} | select {{{k}, {o}}} | group {{{k}, {k}}} (take 1) | select {{{k}, {o}}}"), vec![ki]),
        1 => (format!("from {tn} | group {{{k}, {k}}} (take 1) | select {{{k}, zx = {o}}}"), vec![ki]),
        2 => (format!("from {tn} | select {{{k}, {o}}} | group {{{k}, {tn}.{k}}} (take 1) | select {{{k}, {o}}}"), vec![ki]),
        3 => (format!("from {tn} | select {{{k}, {o}, id}} | group {{{o}, {k}, {o}}} (take 1) | select {{{k}, {o}, id}}"), vec![ki, oi]),
        _ => (format!("from {tn} | select {{{k}, {o}}} | filter true | group {{{k}, {k}}} (take 1) | select {{{o}, {k}}}"), vec![ki]),
    };
    let mut keys: Vec<String> = tb.rows.iter().map(|r| key_cols.iter().map(|i| crate::model::val::cell_key(&r[*i])).collect::<Vec<_>>().join("\u{1}")).collect();
    keys.sort();
    keys.dedup();
    RepeatedKeyCase { db, source: format!("{source}\n"), target, expect_rows: keys.len() }
}

pub fn check_repeated_key(c: &RepeatedKeyCase, _known: &Known) -> Outcome {
    let mut out = Outcome::pass();
    out.key = hash_of(&(&c.source, &c.target, c.expect_rows));
    let sql = match util::compile(&c.source, util::dialect_by_name(&c.target)) {
        Compiled::Sql(s) => s,
        Compiled::Err(_) => return Outcome::skip("rejected_by_compiler").class("rejected_by_compiler"),
        Compiled::Panic(_) => return Outcome::skip("compiler_panic").class("compiler_panic"),
    };
    let res = match exec::run(&c.db, &sql) {
        Ok(r) => r,
        Err(e) => return Outcome::skip(&format!("not executable: {}", util::reason_class(e.msg()))).class("not_executable"),
    };
    out.nontrivial = c.expect_rows >= 2;
    out.classes.push("repeated_group_key".into());
    out.sample = Some(json!({"prql": c.source, "sql": sql, "rows": res.rows.len()}));
    if res.rows.len() != c.expect_rows {
        return Outcome::fail(
            "a group key that repeats a column does not give one row per key value",
            json!({"source": c.source, "sql": sql, "expected_rows": c.expect_rows, "got_rows": res.rows.len()}),
        );
    }
    out
}

pub struct Judged {
    pub src: String,
    pub sql: Option<String>,
}

pub fn sql_shape(sql: &str) -> (usize, bool, bool, bool) {
    let up = sql.to_uppercase();
    let ctes = up.matches(" AS (").count() + up.matches("FROM (").count();
    (
        ctes,
        up.contains(" JOIN "),
        up.contains("GROUP BY"),
        up.contains(" OVER ("),
    )
}

pub struct Details {
    pub src: String,
    pub sql: String,
    pub reference: crate::model::eval::Rel,
    pub res: exec::SqlResult,
}

/// Evaluate the differential oracle on one case.
pub fn check(case: &Case, known: &Known) -> Outcome {
    judge(case, known).0
}

pub fn judge(case: &Case, known: &Known) -> (Outcome, Option<Details>) {
    let mut det: Option<Details> = None;
    let out = judge_inner(case, known, &mut det);
    (out, det)
}

fn judge_inner(case: &Case, known: &Known, det: &mut Option<Details>) -> Outcome {
    let src = print::program(&case.prog);
    let dialect = util::dialect_by_name(&case.target);
    let sql = match util::compile(&src, dialect) {
        Compiled::Sql(s) => s,
        Compiled::Err(rs) => {
            let r = rs.first().cloned().unwrap_or_default();
            return Outcome::skip(&format!("rejected_by_compiler: {}", util::reason_class(&r)))
                .class("rejected_by_compiler");
        }
        Compiled::Panic(p) => {
            // a panic is C12's subject; not judged here
            return Outcome::skip(&format!("compiler_panic: {}:{}", p.file, p.line)).class("compiler_panic");
        }
    };
    let interp = Interp::new(&case.db, &case.prog);
    let reference = match interp.run() {
        Ok(r) => r,
        Err(a) => {
            let why = a.0;
            if why.starts_with("model bug") {
                return Outcome::fail(&format!("harness: {why}"), json!({"source": src}));
            }
            return Outcome::skip(&format!("ambiguous: {why}")).class("ambiguous");
        }
    };
    let res = match exec::run(&case.db, &sql) {
        Ok(r) => r,
        Err(exec::SqlErr::Setup(m)) => return Outcome::skip(&format!("setup: {m}")),
        Err(e) => {
            let m = e.msg().to_string();
            if m.contains("ON clause references tables to its right") || m.contains("Expression tree is too large") || m.contains("too many terms") || m.contains("parser stack overflow") || m.contains("more than 100000 rows") {
                return Outcome::skip("engine_limit").class("engine_limit");
            }
            let binder = m.contains("no such column") || m.contains("no such table") || m.contains("ambiguous column") || m.contains("same number of result columns");
            if case.target == "generic" && !binder {
                // generic SQL that SQLite cannot run (INTERSECT ALL, missing functions, ...): not
                // executable here; its syntax and scoping are judged by C07
                return Outcome::skip(&format!("generic_not_executable: {}", util::reason_class(&m)))
                    .class("generic_not_executable");
            }
            let mut o = Outcome::fail(
                "emitted SQL fails on SQLite",
                json!({"source": src, "sql": sql, "error": m}),
            );
            // recorded finding C07-sort-column-pruned-before-take, by its shape: the missing column
            // is a sort key in front of a LIMIT, and what survives the take is grouped / aggregated
            // without that column
            if let Some(col) = m.strip_prefix("no such column: ").and_then(|r| r.split(' ').next()) {
                let col = col.rsplit('.').next().unwrap_or(col);
                let re = regex::Regex::new(&format!(r"ORDER BY [^()]*\b{}\b[^()]* LIMIT", regex::escape(col))).unwrap();
                let take_then_group = src.find("take").map(|i| src[i..].contains("group") || src[i..].contains("aggregate")).unwrap_or(false);
                if re.is_match(&sql) && take_then_group && known.is_open("C07-sort-column-pruned-before-take") {
                    o.verdict = Verdict::Known(
                        "C07-sort-column-pruned-before-take".into(),
                        format!("sort key {col} is not carried to the ORDER BY in front of the LIMIT"),
                    );
                }
            }
            return o;
        }
    };
    let (ctes, join, group, over) = sql_shape(&sql);
    let nonempty = case.db.tables.iter().any(|t| !t.rows.is_empty());
    let mut out = Outcome::pass();
    out.nontrivial = nonempty && (ctes > 0 || join || group || over);
    out.key = hash_of(&(&src, &case.target, serde_json::to_string(&case.db).unwrap_or_default()));
    out.classes.push(format!("splits={}", ctes.min(3)));
    if join {
        out.classes.push("join".into());
    }
    if group {
        out.classes.push("group_by".into());
    }
    if over {
        out.classes.push("window".into());
    }
    if reference.ordered() {
        out.classes.push("ordered_result".into());
    }
    out.classes.push(format!("target={}", case.target));
    out.sample = Some(json!({"prql": src, "sql": sql, "target": case.target, "rows": res.rows.len()}));
    // Column *order* after `group` / `select !{}` is the resolver's choice (not documented);
    // C05 checks names/order against the resolver's frame. Here rows are aligned by name when
    // the names identify the columns uniquely, by position otherwise.
    let rows_aligned = align_by_name(&case.names, &res.cols, &res.rows);
    let got_rows = rows_aligned.as_ref().unwrap_or(&res.rows);
    let cmp = compare(&reference, res.cols.len(), got_rows);
    let ok = cmp.is_ok();
    let detail_vals = if ok { None } else { Some((reference.rows.iter().map(|r| r.vals.iter().map(|v| v.show()).collect::<Vec<_>>()).collect::<Vec<_>>(), reference.ordered(), res.cols.clone(), res.rows.iter().map(|r| r.iter().map(|v| v.show()).collect::<Vec<_>>()).collect::<Vec<_>>())) };
    if ok {
        *det = Some(Details { src: src.clone(), sql: sql.clone(), reference, res });
        return out;
    }
    // SQLite's planner has defects of its own (observed with 3.49.1: an outer ORDER BY .. DESC over a
    // grouped, ordered + limited sub-query is ignored). The result of a statement does not depend
    // on the planner: if the same statement gives the reference result with the optional
    // optimisations switched off, the difference is the engine's, and the case is not judged.
    if let Ok(res2) = exec::run_unoptimized(&case.db, &sql) {
        let aligned2 = align_by_name(&case.names, &res2.cols, &res2.rows);
        if compare(&reference, res2.cols.len(), aligned2.as_ref().unwrap_or(&res2.rows)).is_ok() {
            return Outcome::skip("engine_planner_defect: SQLite answers differently with optimisations off").class("engine_planner_defect");
        }
    }
    let (exp_rows, exp_ordered, got_cols, got_rows_s) = detail_vals.unwrap();
    match cmp {
        Ok(()) => out,
        Err(m) => {
            let what = match &m {
                Mismatch::Arity { .. } => "result arity differs from the pipeline's frame",
                Mismatch::RowCount { .. } => "row count differs from the reference",
                Mismatch::Rows(_) => "rows differ from the reference",
                Mismatch::Order(_) => "row order differs from the sort in effect",
            };
            let touched = interp.touched.borrow().clone();
            // the same finding when an operand typed float is an integer at run time
            // (`COALESCE(SUM(x), 0)` of an empty group): every differing cell is 0 in the reference
            // and -1 / 1 in the result
            let divi_shape = case.target == "sqlite" && src.contains("//") && sql.contains("ROUND(ABS(") && matches!(m, Mismatch::Rows(_)) && {
                let mut exp: Vec<&Vec<String>> = exp_rows.iter().collect();
                let mut got: Vec<&Vec<String>> = got_rows_s.iter().collect();
                exp.sort();
                got.sort();
                let zero = |s: &str| matches!(s, "0" | "0.0" | "-0.0");
                let one = |s: &str| matches!(s, "1" | "-1" | "1.0" | "-1.0");
                exp.len() == got.len()
                    && exp.iter().all(|e| {
                        got.iter().any(|g| e.len() == g.len() && e.iter().zip(g.iter()).all(|(a, b)| a == b || (zero(a) && one(b)) || (a == "true" && b == "1") || (a == "false" && b == "0")))
                    })
            };
            if (touched.divi_small_int || divi_shape) && case.target == "sqlite" && known.is_open("C02-sqlite-divi-small-int") {
                out.verdict = Verdict::Known(
                    "C02-sqlite-divi-small-int".into(),
                    "sqlite `//` on integers with |l|<|r|".into(),
                );
                return out;
            }
            let detail = json!({
                "source": src,
                "sql": sql,
                "target": case.target,
                "mismatch": format!("{m:?}"),
                "expected_rows": exp_rows,
                "expected_ordered": exp_ordered,
                "got_columns": got_cols,
                "got_rows": got_rows_s,
            });
            out.verdict = Verdict::Fail(what.to_string(), detail);
            out
        }
    }
}

fn align_by_name(
    expect: &[Option<String>],
    got_names: &[String],
    rows: &[Vec<crate::model::val::Val>],
) -> Option<Vec<Vec<crate::model::val::Val>>> {
    if expect.len() != got_names.len() || expect.is_empty() {
        return None;
    }
    let mut perm = vec![];
    for e in expect {
        let e = e.as_ref()?;
        let hits: Vec<usize> = got_names
            .iter()
            .enumerate()
            .filter(|(_, g)| *g == e)
            .map(|(i, _)| i)
            .collect();
        if hits.len() != 1 || perm.contains(&hits[0]) {
            return None;
        }
        perm.push(hits[0]);
    }
    if perm.iter().enumerate().all(|(i, p)| i == *p) {
        return None;
    }
    Some(
        rows.iter()
            .map(|r| perm.iter().map(|p| r[*p].clone()).collect())
            .collect(),
    )
}

pub fn replay_case(case: &Value, known: &Known) -> Option<Outcome> {
    let c: Case = serde_json::from_value(case.clone()).ok()?;
    Some(check(&c, known))
}

pub const RULE: &str = "abstract programs of the relational core decoded from a choice tape (scope- and type-directed), printed to PRQL, compiled for sqlite/generic, executed on in-process SQLite against a generated instance (NULLs, duplicates, empty tables, shared column names) and compared with an independent reference interpreter (values, multiplicities, order where a sort is in effect). non-trivial = compiles, some table non-empty, and the SQL has a CTE/sub-query, join, GROUP BY or window; distinct = hash of (source, target, instance)";

pub fn replay_any(check_name: &str, case: &Value, known: &Known) -> Option<Outcome> {
    if check_name == "repeated-group-key" {
        let c: RepeatedKeyCase = serde_json::from_value(case.clone()).ok()?;
        return Some(check_repeated_key(&c, known));
    }
    if check_name == "distinct-on-order" {
        let c: crate::prop::c03::DistinctOnCase = serde_json::from_value(case.clone()).ok()?;
        return Some(crate::prop::c03::check_distinct_on(&c, known));
    }
    if check_name == "probe" {
        let p: Probe = serde_json::from_value(case.clone()).ok()?;
        return Some(check_probe(&p, known));
    }
    let c: Case = serde_json::from_value(case.clone()).ok()?;
    if check_name.starts_with("hazard/") {
        Some(check_hazard(&c, known))
    } else {
        Some(check(&c, known))
    }
}

pub fn hazard_sweeps(ctx: &Ctx, base: GenCfg, hazards: &[&'static str], quick: u64, thorough: u64) {
    for h in hazards {
        let mut cfg = base.clone();
        cfg.hazards = vec![*h];
        let name = format!("hazard/{h}");
        ctx.tape_search(
            &name,
            ctx.n(quick, thorough),
            400,
            |t| gen_case(t, cfg.clone()),
            |c| check_hazard(c, &ctx.known),
        );
    }
}

pub fn run(ctx: &Ctx) -> i32 {
    ctx.run_replays(|c, case| replay_any(c, case, &ctx.known));
    let cfg = GenCfg::general();
    ctx.tape_search(
        "general",
        ctx.n(40_000, 1_500_000),
        400,
        |t| gen_case(t, cfg.clone()),
        |c| check(c, &ctx.known),
    );
    let mut cfg2 = GenCfg::general();
    cfg2.bias = Bias::Frame;
    cfg2.max_steps = 9;
    ctx.tape_search(
        "long",
        ctx.n(12_000, 500_000),
        600,
        |t| gen_case(t, cfg2.clone()),
        |c| check(c, &ctx.known),
    );
    ctx.tape_search("repeated-group-key", ctx.n(2_000, 40_000), 80, gen_repeated_key_case, |c| check_repeated_key(c, &ctx.known));
    ctx.tape_search("distinct-on-order", ctx.n(3_000, 30_000), 12, crate::prop::c03::gen_distinct_on_case, |c| crate::prop::c03::check_distinct_on(c, &ctx.known));
    ctx.tape_search("setops-over-unknown-columns", ctx.n(3_000, 100_000), 120, gen_setop_case, |c| check(c, &ctx.known));
    let all_h: Vec<&'static str> = HAZARD_FINDINGS.iter().map(|(h, _)| *h).collect();
    hazard_sweeps(ctx, GenCfg::general(), &all_h, 600, 20_000);
    // sorted let-tables with several readers (the generator builds them under this hazard): a
    // larger sweep, sort-biased
    let mut cfg3 = GenCfg::general();
    cfg3.bias = crate::model::gen::Bias::Sort;
    cfg3.hazards = vec!["sorted_let"];
    ctx.tape_search("hazard/sorted_let+readers", ctx.n(4_000, 100_000), 400, |t| gen_case(t, cfg3.clone()), |c| check_hazard(c, &ctx.known));
    if !ctx.quick() {
        ctx.fuzz_campaign("tape_c01", ctx.fuzz_secs(240), 1200);
    }
    ctx.finish(
        RULE,
        &[
            "SQLite 3.49 is the executing engine for both sqlite and generic SQL; NULL ordering and binary text collation are the engine's",
            "reference semantics are the PRQL book's; results the book leaves open (division by zero, take through a tie, row_number over ties, NULL in f-strings, windowed sum of no values) are counted as ambiguous, not judged",
        ],
    )
}

// ---------------------------------------------------------------------------------------
// hazards: constructs excluded from the default generator because they hit a recorded finding.
// A hazard sweep generates them on purpose; a failure in a case that touched hazard h is
// attributed to the finding(s) of h (if listed open in known_findings.json), anything else is
// a violation.

pub const HAZARD_FINDINGS: &[(&str, &[&str])] = &[
    ("drop_agg", &["C01-aggregate-pruned"]),
    ("dup_names", &["C05-dedup-select-items"]),
    ("dup_select", &["C05-same-column-merged"]),
    ("open_take", &["C07-offset-without-limit", "C07-noop-take-keeps-sort"]),
    ("wild_except_twice", &["C05-consecutive-exclusions-forget-first"]),
    ("wild_except_sorted", &["C05-excluded-sort-key-returns"]),
    ("wild_helpers", &["C05-wildcard-helper-leak"]),
    ("wild_except", &["C05-wildcard-helper-leak"]),
    ("wild_dup_join", &["C07-wildcard-join-duplicate-names"]),
    ("append_free", &["C01-append-pruning"]),
    ("int_divi", &["C02-sqlite-divi-small-int"]),
    ("unframed_last", &["C04-first-last-frame"]),
    ("sorted_let", &["C07-sorted-cte-order-by-scope"]),
    ("const_null_fold", &["C02-const-null-fold"]),
    ("shadow", &["C05-shadowed-column-dropped", "C04-rank-shadow"]),
    ("const_group_key", &["C07-group-by-constant"]),
    ("compound_agg", &["C01-take-compound-aggregate"]),
    ("win_over_win", &["C07-window-over-window-sort-scope"]),
    ("mul_right", &["C02-mul-right-operand-parens"]),
    ("sorted_group_derive", &["C03-take-before-group-loses-sort"]),
    ("group_take_sort_agg", &["C12-group-take-sort-aggregate", "C07-group-take-sort-aggregate"]),
    ("resort_after_take", &["C03-take-sort-take-merged"]),
    ("sort_by_windowed", &["C07-sort-by-windowed-scope"]),
    ("take_far_from_sort", &["C07-sort-column-pruned-before-take"]),
    ("sorted_aggregate", &["C04-stale-sort-after-aggregate"]),
    ("multi_take_agg", &["C07-sort-column-pruned-before-take"]),
    ("wild_let", &["C07-wildcard-let-derive-name"]),
    ("const_fold", &["C05-same-column-merged", "C02-const-null-fold"]),
    ("dropped_key_join", &["C03-dropped-sort-key-join"]),
    ("take_distinct", &["C01-take-then-distinct-merged"]),
    ("computed_key_join", &["C16-computed-sort-key-lowered-into-subpipeline"]),
    ("sort_key_rename", &["C12-sort-key-rename-panic", "C07-sort-key-rename-scope"]),
];

/// If the case touched a hazard whose finding is open, the failure is that finding's.
pub fn attribute(flags: &[String], known: &Known) -> Option<(String, String)> {
    attribute_with(flags, known, "")
}

/// `failure`: the failure text (SQL error message if any). Some hazards are attributed only to a
/// specific failure so that other defects of the same programs stay visible.
pub fn attribute_with(flags: &[String], known: &Known, failure: &str) -> Option<(String, String)> {
    for (h, fs) in HAZARD_FINDINGS {
        if *h == "open_take" && !(failure.contains("OFFSET") || failure.contains("no such column")) {
            // C07-offset-without-limit / C07-noop-take-keeps-sort are SQL errors; wrong rows of an
            // open-ended take are not covered by them
            continue;
        }
        if *h == "sorted_let" && flags.iter().any(|f| f == h) {
            // C07-sorted-cte-order-by-scope is an SQL error (ORDER BY naming a relation that only
            // exists inside the CTE); C06-let-sort-not-applied-to-windows needs a window function;
            // other wrong rows / wrong order after a sorted let-table are neither
            let sql_scope = failure.contains("no such column") || failure.contains("ambiguous column");
            let window = flags.iter().any(|f| f == "uses_window");
            if sql_scope && known.is_open("C07-sorted-cte-order-by-scope") {
                return Some(("C07-sorted-cte-order-by-scope".into(), "case uses hazard `sorted_let`".into()));
            }
            if window && known.is_open("C06-let-sort-not-applied-to-windows") {
                return Some(("C06-let-sort-not-applied-to-windows".into(), "case uses hazard `sorted_let` and a window function".into()));
            }
            continue;
        }
        if *h == "wild_dup_join" && failure == "arity" {
            // that finding is about references to the shared name (SQL error or the wrong column),
            // not about the result columns (C05 passes "arity")
            continue;
        }
        if flags.iter().any(|f| f == h) {
            for f in *fs {
                if known.is_open(f) {
                    return Some((f.to_string(), format!("case uses hazard `{h}`")));
                }
            }
        }
    }
    None
}

pub fn check_hazard(case: &Case, known: &Known) -> Outcome {
    let mut out = check(case, known);
    out.nontrivial = false; // hazard sweeps re-exercise findings; they do not count as coverage
    if let Verdict::Fail(_, detail) = &out.verdict {
        let failure = detail.get("error").and_then(|e| e.as_str()).unwrap_or("").to_string();
        if let Some((id, what)) = attribute_with(&case.flags, known, &failure) {
            out.verdict = Verdict::Known(id, what);
        }
    }
    out
}

// ---------------------------------------------------------------------------------------
// deterministic probes: one hand-written program per recorded finding with its documented result

#[derive(Clone, Debug, Serialize, Deserialize)]
pub struct Probe {
    pub finding: String,
    pub source: String,
    pub target: String,
    pub db: Db,
    /// documented result: rows (None = only arity is stated)
    pub expect_rows: Option<Vec<Vec<crate::model::val::Val>>>,
    pub expect_arity: usize,
    #[serde(default)]
    pub expect_ordered: bool,
}

/// Probe verdict: the documented result is produced => pass (finding no longer reproduces);
/// otherwise the finding reproduces: Known if listed open, else Fail.
pub fn check_probe(p: &Probe, known: &Known) -> Outcome {
    let dialect = util::dialect_by_name(&p.target);
    let mut out = Outcome::pass();
    out.classes.push("probe".into());
    let reproduces: Option<String> = match util::compile(&p.source, dialect) {
        Compiled::Err(rs) => Some(format!("compile error: {}", rs.join("; "))),
        Compiled::Panic(pi) => Some(format!("panic at {}:{}", pi.file, pi.line)),
        Compiled::Sql(sql) => match exec::run(&p.db, &sql) {
            Err(e) => Some(format!("SQL fails: {} [{}]", e.msg(), sql)),
            Ok(res) => {
                if res.cols.len() != p.expect_arity {
                    Some(format!("arity {} instead of {} [{}]", res.cols.len(), p.expect_arity, sql))
                } else if let Some(rows) = &p.expect_rows {
                    let reference = crate::model::eval::Rel {
                        ncols: p.expect_arity,
                        rows: rows
                            .iter()
                            .enumerate()
                            .map(|(i, r)| crate::model::eval::Row {
                                vals: r.clone(),
                                okey: if p.expect_ordered { vec![crate::model::val::Val::Int(i as i64)] } else { vec![] },
                            })
                            .collect(),
                        order: if p.expect_ordered { vec![false] } else { vec![] },
                    };
                    match compare(&reference, res.cols.len(), &res.rows) {
                        Ok(()) => None,
                        Err(m) => Some(format!("{m:?} [{sql}]")),
                    }
                } else {
                    None
                }
            }
        },
    };
    match reproduces {
        None => {
            out.classes.push(format!("probe_not_reproducing:{}", p.finding));
            out
        }
        Some(how) => {
            if known.is_open(&p.finding) {
                out.verdict = Verdict::Known(p.finding.clone(), how);
            } else {
                out.verdict = Verdict::Fail(
                    format!("probe for {} reproduces but the finding is not listed open", p.finding),
                    json!({"source": p.source, "how": how}),
                );
            }
            out
        }
    }
}
