//! C13 — errors are located inside the source and point at the offending text.

use serde::{Deserialize, Serialize};
use serde_json::{json, Value};

use crate::known::Known;
use crate::model::gen::GenCfg;
use crate::model::print;
use crate::prop::c01;
use crate::runner::{catch, hash_of, Ctx, Outcome, Verdict};
use crate::tape::Tape;

pub const F_BYTES: &str = "C13-parser-resolver-spans-are-byte-offsets";
pub const F_FOREIGN: &str = "C13-span-in-foreign-source";
pub const F_ESCAPES: &str = "C13-interpolation-span-after-escapes";

#[derive(Clone, Debug, Serialize, Deserialize)]
pub struct Case {
    /// text before the fault, in two versions of equal length in characters
    pub pad_ascii: String,
    pub pad_multibyte: String,
    /// where the padding goes: "comment-line" | "string-literal" | "none"
    pub pad_kind: String,
    pub body: String,
    pub fault: String,
    /// "lexical" | "syntactic" | "resolution" | "type" | "sqlgen"
    pub class: String,
    /// line endings of the whole source: "\n" or "\r\n"
    #[serde(default)]
    pub crlf: bool,
}

const MB: &[&str] = &["é", "ü", "日", "本", "ß", "€", "😀", "ñ"];

pub fn gen_case(t: &mut Tape) -> Case {
    let mut cfg = GenCfg::general();
    cfg.allow_wild = false;
    cfg.allow_append = false;
    cfg.max_steps = 5;
    let c = c01::gen_case(t, cfg);
    let mut p = c.prog.clone();
    p.surface.newlines = t.chance(1, 2);
    let base = print::program(&p).trim_end().to_string();
    let (class, fault): (&str, String) = match t.choose(22) {
        // several errors for one construct (they share a span): each must be rendered
        19 => ("syntactic", " | join side:left side:right side:full (from t1 | select {zc = 1}) (true)".into()),
        20 => ("syntactic", " | sort zzz:1 zzz:2 zzz:3 {id}".into()),
        21 => ("resolution", " | take zzq:1 zzp:2 zzr:3 5".into()),
        // an unknown name inside an interpolated string; escape sequences after / before the
        // placeholder (the string's text is shorter than its spelling)
        14 => ("resolution", " | derive {zz = f\"{zzz_col}: \\t\\n\"}".into()),
        15 => ("resolution", " | derive {zz = s\"REPLACE({zzz_col}, '\\t', '\\x41\\x42')\"}".into()),
        16 => ("resolution", " | derive {zz = f\"{s}-{zzz_col} \\\"x\\\" \\\"y\\\"\"}".into()),
        17 => ("resolution", " | derive {zz = f\"\\t\\t{zzz_col}\"}".into()),
        18 => ("resolution", " | derive {zz = s\"\\x41\\x42({zzz_col})\"}".into()),
        0 => ("lexical", " | filter s == \"unterminated".into()),
        1 => ("lexical", " | derive {zz = 1 ^ 2}".into()),
        2 => ("lexical", " | derive {zz = 'abc}".into()),
        3 => ("syntactic", " | derive {zz = 1 +}".into()),
        4 => ("syntactic", " | select {zz = 1".into()),
        5 => ("syntactic", " | derive zz = = 2".into()),
        6 => ("syntactic", " | filter (1 + 2".into()),
        7 => ("resolution", " | derive {zz = zzz_unknown_fn 1}".into()),
        8 => ("resolution", " | filter zzz_col > 1".into()),
        9 => ("resolution", " | sort {zzz_col}".into()),
        10 => ("type", " | take \"a\"".into()),
        11 => ("type", " | filter 1 + 2 | take 3 4".into()),
        12 => ("sqlgen", " | derive {zz = \"a\" ~= \"b\"} | take 1".into()),
        _ => ("resolution", " | join zzz_side:left (from t1) (true)".into()),
    };
    let n = 1 + t.choose(12);
    let mut mb = String::new();
    let mut asc = String::new();
    for _ in 0..n {
        if t.chance(2, 3) {
            mb.push_str(*t.pick(MB));
        } else {
            mb.push('e');
        }
        asc.push('e');
    }
    if !mb.chars().any(|c| c.len_utf8() > 1) {
        mb.replace_range(0..1, "é");
    }
    let pad_kind = *t.pick(&["comment-line", "string-literal", "comment-line", "none"]);
    Case {
        pad_ascii: asc,
        pad_multibyte: mb,
        pad_kind: pad_kind.into(),
        body: base,
        fault,
        class: class.into(),
        crlf: t.chance(1, 4),
    }
}

pub fn assemble(c: &Case, pad: &str) -> String {
    let s = assemble_lf(c, pad);
    if c.crlf {
        s.replace('\n', "\r\n")
    } else {
        s
    }
}

fn assemble_lf(c: &Case, pad: &str) -> String {
    match c.pad_kind.as_str() {
        "comment-line" => format!("# {pad}\n{}{}\n", c.body, c.fault),
        "string-literal" => format!("{} | derive {{zpad = \"{pad}\"}}{}\n", c.body, c.fault),
        _ => format!("{}{}\n", c.body, c.fault),
    }
}

fn line_col(src: &str, char_off: usize) -> (usize, usize) {
    let (mut line, mut col) = (0, 0);
    for (i, ch) in src.chars().enumerate() {
        if i == char_off {
            break;
        }
        if ch == '\n' {
            line += 1;
            col = 0;
        } else {
            col += 1;
        }
    }
    (line, col)
}

#[derive(Debug, Clone, PartialEq)]
struct Seen {
    /// the span names a source id that is not a file of the tree
    foreign: bool,
    reason: String,
    span: Option<(usize, usize)>,
    location: Option<((usize, usize), (usize, usize))>,
}

/// basic validity of every error message for one source; Err(what) on violation
fn validate(src: &str) -> Result<Option<Vec<Seen>>, (String, Value)> {
    let o = crate::util::opts(None);
    let r = match catch(|| prqlc::compile(src, &o)) {
        Err(p) => return Err((format!("PANIC {}:{}", p.file, p.line), json!({"panic": p.message}))),
        Ok(r) => r,
    };
    let Err(errs) = r else { return Ok(None) };
    if errs.inner.is_empty() {
        return Err(("compile fails with an empty error list".into(), json!({})));
    }
    let nchars = src.chars().count();
    let raw_lines: Vec<&str> = src.split('\n').collect();
    let lines: Vec<&str> = raw_lines.iter().map(|l| l.trim_end_matches('\r')).collect();
    let mut seen = vec![];
    for m in &errs.inner {
        if m.reason.trim().is_empty() {
            return Err(("error with an empty reason".into(), json!({"error": format!("{:?}", m.span)})));
        }
        let mut s = Seen {
            foreign: false,
            reason: m.reason.clone(),
            span: None,
            location: None,
        };
        if let Some(sp) = m.span {
            s.span = Some((sp.start, sp.end));
            if sp.source_id != 1 {
                // single-file compile: the only file has id 1
                s.foreign = true;
                seen.push(s);
                continue;
            }
            if sp.start > sp.end || sp.end > nchars {
                return Err((
                    "span is not inside the source (character offsets)".into(),
                    json!({"reason": m.reason, "span": [sp.start, sp.end], "chars": nchars}),
                ));
            }
            // what a "line" is, is only unambiguous for LF / CRLF: the renderer also breaks lines
            // at VT, FF, NEL, LS and PS. Sources containing those are judged on span bounds only.
            let lone_cr = src.as_bytes().windows(2).any(|w| w[0] == b'\r' && w[1] != b'\n') || src.ends_with('\r');
            if lone_cr || src.contains(['\u{b}', '\u{c}', '\u{85}', '\u{2028}', '\u{2029}']) {
                seen.push(s);
                continue;
            }
            match &m.location {
                None => return Err(("error has a span but no location".into(), json!({"reason": m.reason}))),
                Some(l) => {
                    s.location = Some((l.start, l.end));
                    let (es, ee) = (line_col(src, sp.start), line_col(src, sp.end));
                    // the position just after a final newline may be given as (last line, its
                    // length + 1) or as (next line, 0): both denote the end of the file
                    let eof_alt = |off: usize, want: (usize, usize), got: (usize, usize)| -> bool {
                        off == nchars && src.ends_with('\n') && want.1 == 0 && want.0 > 0 && got.0 == want.0 - 1
                            && got.1 == raw_lines.get(got.0).map(|l| l.chars().count() + 1).unwrap_or(usize::MAX)
                    };
                    let ok_s = l.start == es || eof_alt(sp.start, es, l.start);
                    let ok_e = l.end == ee || eof_alt(sp.end, ee, l.end);
                    if !ok_s || !ok_e {
                        return Err((
                            "reported line/column is not the position of the span".into(),
                            json!({"reason": m.reason, "span": [sp.start, sp.end], "location": [l.start, l.end], "expected": [es, ee]}),
                        ));
                    }
                    match &m.display {
                        None => return Err(("error has a span but no rendered message".into(), json!({"reason": m.reason}))),
                        Some(d) => {
                            let line = lines.get(es.0).copied().unwrap_or("");
                            // control characters have no rendering: compared without them
                            // (and tabs are rendered as runs of blanks: compared without white space)
                            let vis = |t: &str| -> String { t.chars().filter(|c| !c.is_control() && !c.is_whitespace()).collect() };
                            // (an ESC character starts a terminal escape sequence, which the plain rendering strips
                            // together with the characters after it: such lines are not compared)
                            if !line.trim().is_empty() && !line.contains('\u{1b}') && !d.contains(line.trim_end()) && !vis(d).contains(&vis(line)) {
                                return Err((
                                    "rendered message does not quote the line containing the span".into(),
                                    json!({"reason": m.reason, "line": line, "display": d}),
                                ));
                            }
                        }
                    }
                }
            }
        }
        seen.push(s);
    }
    Ok(Some(seen))
}

pub fn check(c: &Case, known: &Known) -> Outcome {
    let src_a = assemble(c, &c.pad_ascii);
    let src_m = assemble(c, &c.pad_multibyte);
    let mut out = Outcome::pass();
    out.key = hash_of(&src_m);
    out.classes.push(format!("class={}", c.class));
    out.classes.push(format!("pad={}", c.pad_kind));
    // ASCII variant: every check is strict
    let a = match validate(&src_a) {
        Err((what, d)) if what.starts_with("PANIC") => {
            let _ = d;
            return Outcome::skip(&format!("compiler_panic_ascii {what}")).class("compiler_panic");
        }
        Err((what, mut d)) => {
            d["source"] = json!(src_a);
            return Outcome::fail(&what, d);
        }
        Ok(None) => return Outcome::skip("fault_not_an_error").class("fault_not_an_error"),
        Ok(Some(s)) => s,
    };
    if a.iter().any(|s| s.foreign) {
        let mut o = Outcome::fail(
            "error span names a source that is not a file of the source tree",
            json!({"source": src_a, "errors": a.iter().map(|s| json!({"reason": s.reason, "span": s.span, "foreign": s.foreign})).collect::<Vec<_>>()}),
        );
        if known.is_open(F_FOREIGN) {
            o.verdict = Verdict::Known(F_FOREIGN.into(), format!("{} -> {}", c.fault.trim(), a[0].reason.chars().take(60).collect::<String>()));
        }
        return o;
    }
    // an unknown name that occurs once in the source: the span of its error points at it
    for name in ["zzz_col", "zzz_unknown_fn"] {
        if src_a.matches(name).count() != 1 {
            continue;
        }
        for e in a.iter().filter(|e| e.reason.contains(name) && e.reason.starts_with("Unknown name")) {
            let Some((s0, e0)) = e.span else { continue };
            let text: String = src_a.chars().skip(s0).take(e0 - s0).collect();
            out.classes.push("unknown_name_span_checked".into());
            if !text.contains(name) {
                let mut o = Outcome::fail(
                    "the span of an `Unknown name` error does not cover the name",
                    json!({"source": src_a, "reason": e.reason, "span": [s0, e0], "text_under_span": text}),
                );
                let before_placeholder = c.fault.contains("\\t\\t{zzz") || c.fault.contains("\\x42({zzz");
                let multibyte_before = src_a.chars().take(e0).any(|c| c.len_utf8() > 1);
                if multibyte_before && known.is_open(F_BYTES) {
                    // the generated body itself contains multi-byte text before the error
                    o.verdict = Verdict::Known(F_BYTES.into(), format!("span covers `{text}` (multi-byte text before it)"));
                } else if before_placeholder && known.is_open(F_ESCAPES) {
                    o.verdict = Verdict::Known(F_ESCAPES.into(), format!("span covers `{text}`"));
                }
                return o;
            }
        }
    }
    // the fault must be blamed near where it was injected (character range of the fault text)
    let fault_start = src_a.chars().count() - c.fault.chars().count() - 1;
    if let Some((s, e)) = a[0].span {
        let near = e + 2 >= fault_start.saturating_sub(0) || s >= fault_start;
        if !near && c.class != "type" && c.class != "sqlgen" {
            out.classes.push("span_before_fault".into());
        }
    }
    if c.pad_kind == "none" {
        out.sample = Some(json!({"source": src_a, "errors": a.iter().map(|s| json!({"reason": s.reason, "span": s.span})).collect::<Vec<_>>()}));
        return out;
    }
    // multi-byte variant: same spans and locations as the ASCII twin
    let attribute = |what: &str, detail: Value| -> Outcome {
        let mut o = Outcome::fail(what, detail);
        if c.class != "lexical" && known.is_open(F_BYTES) {
            o.verdict = Verdict::Known(F_BYTES.into(), format!("{what} (only with multi-byte text before a {} error)", c.class));
        }
        o.classes = vec![format!("class={}", c.class), format!("pad={}", c.pad_kind)];
        o
    };
    let m = match validate(&src_m) {
        Err((what, _)) if what.starts_with("PANIC") => {
            if what.contains("error_message.rs") && c.class != "lexical" && known.is_open(F_BYTES) {
                let mut o = Outcome::pass();
                o.verdict = Verdict::Known(F_BYTES.into(), "composing the message panics: span beyond the character count".into());
                return o;
            }
            return Outcome::skip(&format!("compiler_panic {what}")).class("compiler_panic");
        }
        Err((what, mut d)) => {
            d["source"] = json!(src_m);
            d["ascii_twin"] = json!(src_a);
            return attribute(&what, d);
        }
        Ok(None) => return Outcome::fail("the multi-byte variant compiles while its ASCII twin fails", json!({"source": src_m})),
        Ok(Some(s)) => s,
    };
    if a.len() != m.len() || a.iter().zip(&m).any(|(x, y)| x.span != y.span || x.location != y.location) {
        return attribute(
            "span/location changes when ASCII text before the error is replaced by multi-byte text of the same length in characters",
            json!({"source": src_m, "ascii_twin": src_a,
                   "ascii": a.iter().map(|s| json!({"reason": s.reason, "span": s.span, "location": s.location})).collect::<Vec<_>>(),
                   "multibyte": m.iter().map(|s| json!({"reason": s.reason, "span": s.span, "location": s.location})).collect::<Vec<_>>()}),
        );
    }
    out.nontrivial = m.iter().any(|s| s.span.is_some());
    out.sample = Some(json!({"source": src_m, "errors": m.iter().map(|s| json!({"reason": s.reason, "span": s.span, "location": s.location})).collect::<Vec<_>>()}));
    out
}

/// Arbitrary source text (libFuzzer target `err_span`): the per-error validity predicate alone.
/// With multi-byte text in the source, a failure is the recorded byte-offset finding's unless the
/// error is a lexer error (their offsets are converted to characters).
pub fn check_source(src: &str, known: &Known) -> Outcome {
    let mut out = Outcome::pass();
    out.key = hash_of(src);
    match validate(src) {
        Ok(None) => out.classes.push("compiles".into()),
        Ok(Some(seen)) => {
            out.nontrivial = seen.iter().any(|s| s.span.is_some());
            out.classes.push("fails".into());
            if seen.iter().any(|s| s.foreign) {
                let mut o = Outcome::fail(
                    "error span names a source that is not a file of the source tree",
                    json!({"source": src, "errors": seen.iter().map(|s| json!({"reason": s.reason, "span": s.span, "foreign": s.foreign})).collect::<Vec<_>>()}),
                );
                if known.is_open(F_FOREIGN) {
                    o.verdict = Verdict::Known(F_FOREIGN.into(), seen[0].reason.chars().take(60).collect());
                }
                return o;
            }
        }
        Err((what, _)) if what.starts_with("PANIC") => return Outcome::skip("compiler_panic").class("compiler_panic"),
        Err((what, mut d)) => {
            d["source"] = json!(src);
            let mut o = Outcome::fail(&what, d);
            if !src.is_ascii() && known.is_open(F_BYTES) {
                o.verdict = Verdict::Known(F_BYTES.into(), format!("{what} (source contains multi-byte text)"));
            }
            return o;
        }
    }
    out
}

pub fn replay_any(name: &str, case: &Value, known: &Known) -> Option<Outcome> {
    if name == "fuzz-source" || name == "repo-corpus" {
        return Some(check_source(case.get("source")?.as_str()?, known));
    }
    if name == "project-trees" {
        let c: TreeCase = serde_json::from_value(case.clone()).ok()?;
        return Some(check_tree(&c, known));
    }
    let c: Case = serde_json::from_value(case.clone()).ok()?;
    Some(check(&c, known))
}

pub fn run(ctx: &Ctx) -> i32 {
    ctx.run_replays(|c, case| replay_any(c, case, &ctx.known));
    // the repository's own programs (a fifth of them are rejected on purpose by its tests)
    let corpus: Vec<Value> = crate::util::corpus_programs().into_iter().map(|s| json!({"source": s})).collect();
    ctx.enumerate("repo-corpus", corpus, |c| check_source(c["source"].as_str().unwrap_or(""), &ctx.known));
    ctx.tape_search("fault-injection", ctx.n(30_000, 1_000_000), 400, gen_case, |c| check(c, &ctx.known));
    ctx.tape_search("project-trees", ctx.n(2_000, 40_000), 40, gen_tree_case, |c| check_tree(c, &ctx.known));
    if !ctx.quick() {
        ctx.fuzz_campaign("err_span", ctx.fuzz_secs(240), 2048);
    }
    ctx.finish(
        "valid generated programs + one injected fault of a known class (lexical: unterminated string, stray ^, unterminated quote; syntactic: dangling operator, missing brace/paren, doubled =; resolution: unknown function / column / named argument; type: text to take, number to filter; SQL generation: regex under generic) + padding before the fault (comment line or string literal) in two versions of equal character length, ASCII and multi-byte. Every returned error must have a non-empty reason; a span must lie inside the source in character offsets with start <= end; location must be the (line, column) of the span; the rendered message must quote that line; span and location must be identical for the two paddings. non-trivial = the error has a span and multi-byte text precedes it; distinct = source text",
        &["panics are C12's subject (except the known span-out-of-bounds assertion, which is the same root cause as the recorded finding)", "multi-file projects: one root and one module file, built through SourceTree::new / default()+insert (both orders) / single"],
    )
}

// ---------------------------------------------------------------------------------------
// multi-file projects: the same validity predicate per error, the span being resolved against
// the file its source id names; the tree is built through each public constructor

#[derive(Clone, Debug, Serialize, Deserialize)]
pub struct TreeCase {
    /// 0 = SourceTree::new, 1 = default() + insert(root, module), 2 = default() + insert(module, root),
    /// 3 = SourceTree::single (root only, module inlined)
    pub ctor: u8,
    pub root: String,
    pub module: String,
}

const TREE_FAULTS: &[&str] = &[
    " | filter zzz_col > 1",
    " | derive {zz = zzz_unknown_fn 1}",
    " | derive {zz = 1 +}",
    " | take \"a\"",
    " | filter 1 + 2 | take 3 4",
    " | append 5",
    " | take 1..2..3",
    " | derive {zz = 'abc}",
    " | select {zz = 1 ^ 2}",
    "",
];

pub fn gen_tree_case(t: &mut Tape) -> TreeCase {
    let pad = |t: &mut Tape| -> String {
        let n = t.choose(4);
        (0..n).map(|i| format!("# line {i} of padding\n")).collect()
    };
    let mut root = format!("{}from m1.tbl | select {{id, a}}", pad(t));
    let mut module = format!("{}let tbl = (from t1 | select {{id, a, b}})", pad(t));
    let fault = *t.pick(TREE_FAULTS);
    if t.chance(2, 3) {
        root.push_str(fault);
    } else {
        module = module.replacen("select {id, a, b})", &format!("select {{id, a, b}}{fault})"), 1);
    }
    root.push('\n');
    module.push('\n');
    TreeCase { ctor: t.choose(4) as u8, root, module }
}

pub fn check_tree(c: &TreeCase, known: &Known) -> Outcome {
    use std::path::PathBuf;
    let mut out = Outcome::pass();
    out.key = hash_of(&(c.ctor, &c.root, &c.module));
    out.classes.push(format!("tree_ctor={}", c.ctor));
    let root_path = PathBuf::from("Project.prql");
    let mod_path = PathBuf::from("m1.prql");
    let tree = match c.ctor {
        0 => prqlc::SourceTree::new(vec![(root_path.clone(), c.root.clone()), (mod_path.clone(), c.module.clone())], None),
        1 => {
            let mut t = prqlc::SourceTree::default();
            t.insert(root_path.clone(), c.root.clone());
            t.insert(mod_path.clone(), c.module.clone());
            t
        }
        2 => {
            let mut t = prqlc::SourceTree::default();
            t.insert(mod_path.clone(), c.module.clone());
            t.insert(root_path.clone(), c.root.clone());
            t
        }
        _ => {
            // one file: the module's declaration in front of the root pipeline
            let body = c.module.replace("let tbl", "module m1 {\nlet tbl");
            prqlc::SourceTree::single(root_path.clone(), format!("{body}}}\n{}", c.root))
        }
    };
    let o = crate::util::opts(None);
    let r = match catch(|| {
        prqlc::prql_to_pl_tree(&tree)
            .and_then(|pl| prqlc::pl_to_rq_tree(pl, &[], &[]))
            .and_then(|rq| prqlc::rq_to_sql(rq, &o))
            .map_err(|e| e.composed(&tree))
    }) {
        Err(p) => {
            if p.file.ends_with("error_message.rs") {
                return Outcome::fail(
                    "composing the error message of a project panics (span outside the file it names)",
                    json!({"ctor": c.ctor, "root": c.root, "module": c.module, "panic": p.message}),
                );
            }
            return Outcome::skip(&format!("compiler_panic {}:{}", p.file, p.line)).class("compiler_panic");
        }
        Ok(r) => r,
    };
    let Err(errs) = r else {
        out.classes.push("project_compiles".into());
        return out;
    };
    if errs.inner.is_empty() {
        return Outcome::fail("compile fails with an empty error list", json!({"root": c.root, "module": c.module}));
    }
    for m in &errs.inner {
        if m.reason.trim().is_empty() {
            return Outcome::fail("error with an empty reason", json!({"root": c.root, "module": c.module}));
        }
        let Some(sp) = m.span else { continue };
        // the file the span was resolved against is the one the rendered message names
        // (`[ Project.prql:2:30 ]`); no rendered message = no file of the tree has that source id
        let named = m.display.as_ref().and_then(|d| {
            regex::Regex::new(r"\[ ?([^\]:]*):\d+:\d+ ?\]").ok()?.captures(d).map(|c| PathBuf::from(c[1].trim()))
        });
        let Some(path) = named.as_ref().filter(|p| tree.sources.contains_key(*p)) else {
            // a span that names no file of the tree (the embedded std library): recorded finding
            let mut o = Outcome::fail(
                "error span names a source that is not a file of the source tree",
                json!({"ctor": c.ctor, "root": c.root, "module": c.module, "reason": m.reason, "span": format!("{sp:?}")}),
            );
            if known.is_open(F_FOREIGN) {
                o.verdict = Verdict::Known(F_FOREIGN.into(), format!("{} (project)", m.reason.chars().take(60).collect::<String>()));
            }
            return o;
        };
        let src = tree.sources.get(path).cloned().unwrap_or_default();
        let nchars = src.chars().count();
        let detail = |what: &str| json!({"ctor": c.ctor, "file": path, "root": c.root, "module": c.module, "reason": m.reason, "span": [sp.start, sp.end], "what": what});
        if sp.start > sp.end || sp.end > nchars {
            return Outcome::fail("span is not inside the file its source id names", detail("bounds"));
        }
        let Some(l) = &m.location else {
            return Outcome::fail("error has a span but no location", detail("location"));
        };
        let (es, ee) = (line_col(&src, sp.start), line_col(&src, sp.end));
        let eof_ok = |off: usize, want: (usize, usize), got: (usize, usize)| off == nchars && src.ends_with('\n') && want.1 == 0 && want.0 > 0 && got.0 == want.0 - 1;
        if !(l.start == es || eof_ok(sp.start, es, l.start)) || !(l.end == ee || eof_ok(sp.end, ee, l.end)) {
            return Outcome::fail("reported line/column is not the position of the span in its file", detail("line/column"));
        }
        if let Some(d) = &m.display {
            let line = src.split('\n').nth(es.0).unwrap_or("").trim_end_matches('\r');
            if !line.trim().is_empty() && !d.contains(line.trim_end()) {
                return Outcome::fail("rendered message does not quote the line containing the span", detail("display"));
            }
        } else {
            return Outcome::fail("error has a span but no rendered message", detail("display"));
        }
        // an `Unknown name` error points at the name
        for name in ["zzz_col", "zzz_unknown_fn"] {
            if m.reason.contains(name) && m.reason.starts_with("Unknown name") && src.matches(name).count() == 1 {
                let text: String = src.chars().skip(sp.start).take(sp.end - sp.start).collect();
                if !text.contains(name) {
                    return Outcome::fail("the span of an `Unknown name` error does not cover the name", detail(&text));
                }
            }
        }
    }
    out.nontrivial = errs.inner.iter().any(|m| m.span.is_some());
    out.sample = Some(json!({"ctor": c.ctor, "root": c.root, "module": c.module, "errors": errs.inner.iter().map(|m| json!({"reason": m.reason, "span": m.span.map(|s| format!("{s:?}"))})).collect::<Vec<_>>()}));
    out
}
