//! C14 — formatting preserves the program and is idempotent.

use serde::{Deserialize, Serialize};
use serde_json::{json, Value};

use crate::known::Known;
use crate::model::gen::{Bias, GenCfg};
use crate::model::print;
use crate::prop::{c01, c16};
use crate::runner::{catch, hash_of, Ctx, Outcome, Verdict};
use crate::tape::Tape;
use crate::util;

#[derive(Clone, Debug, Serialize, Deserialize)]
pub struct Case {
    pub source: String,
}

pub const F_FLOAT: &str = "C14-float-loses-fraction";
pub const F_STAR_ALIAS: &str = "C14-star-alias-unquoted";
pub const F_MAIN_ALIAS: &str = "C14-statement-alias-dropped";

/// programs in which NAME is replaced by identifiers of every length 1..=70
pub const WIDTH_TEMPLATES: &[&str] = &[
    "from t | filter (NAME | in 50000..150000)",
    "from t | filter (NAME | in @2020-01-01..@2020-12-31)",
    "from t | filter (NAME | in 1.5..2.5) | take 2..10",
    "from t | filter (NAME | in \"aaaa\"..\"zzzz\")",
    "from t | filter (NAME | in (-5)..(-1))",
    "from t | filter (b | in 1..NAME)",
    "from t | derive {y = case [NAME > 0 => \"aaaa\", NAME < 0 => \"bbbb\", true => null]}",
    "from t | select {NAME, b = f\"{NAME} and more\", c = s\"COALESCE({NAME}, 0)\"}",
    "from t | sort {-NAME, +b} | take 1..20",
    "from t | join side:left u (t.NAME == u.NAME && t.b != u.b)",
    "from t | group {NAME} (window rows:-3..3 (derive {m = sum b, r = rank b}))",
    "from t | derive {y = (NAME + 1) * (b - -2) / 3 ?? 0, z = -NAME ** 2, w = !f && (NAME > b || b == null)}",
    "let f = a b:1 -> a + b\nfrom t | derive {y = (f b:22222 NAME), z = (NAME | f b:33333)}",
    "from t | select {NAME = a, `NAME x` = b, r = 1..5} | filter `NAME x` > 2 | aggregate {total = sum NAME, n = count this}",
    "from t | filter NAME > @2020-01-01T12:00:00+01:00 && b < 2days && c == 0x1f",
    "from [{NAME = 1, b = 2.5}, {NAME = 3, b = null}] | append (from t | select {NAME, b})",
    "from t | derive {y = -(NAME ** 2), z = 1 - -(2 ** NAME), w = !(NAME == 1), v = (-NAME) ** 2, u = -(NAME + 1) ** 2, q = -(-NAME), p = +(NAME ** 2)} | sort {-(NAME ** 2), +(NAME * 2)}",
    "from t | filter s\"{NAME} ~ '^\\\\d+$'\" | derive {p = f\"C:\\\\dir\\\\{NAME}\\\\n\", q = s\"{NAME} LIKE '%\\\\_%' ESCAPE '\\\\'\", r = f\"{{{NAME}}} \\\"quoted\\\" \\t tab\", u = s\"JSON_VALUE({NAME}, '$.a')\"}",
    "from t | derive {y = (NAME ?? 1) ?? 2, z = NAME ?? (1 ?? 2), w = (NAME - 1) - 2, v = NAME - (1 - 2), u = (NAME ** 2) ** 3, s = NAME ** (2 ** 3), r = (NAME / 2) * 3, q = NAME / (2 * 3), p = !(!f)} | filter (NAME > 1) == (b > 2) && !(NAME == null || b != null)",
];

pub fn gen_case(t: &mut Tape) -> Case {
    let mut cfg = GenCfg::general();
    cfg.bias = *t.pick(&[Bias::General, Bias::Frame, Bias::Window, Bias::Sort]);
    cfg.hazards = c16::ALL_HAZARDS.to_vec();
    // integral float literals are excluded by construction 7 times out of 8 so that the rest of the
    // oracle (idempotence, same SQL) is reached; the finding stays exercised by the remaining eighth
    cfg.no_integral_floats = !t.chance(1, 8);
    let mut c = c01::gen_case(t, cfg);
    c.prog.surface.redundant_parens = t.chance(1, 3);
    let mut source = print::program(&c.prog);
    if t.chance(1, 3) {
        source = crate::model::lexdecor::stretch(t, &source);
    }
    if t.chance(1, 2) {
        source = crate::model::lexdecor::decorate(t, &source);
        if t.chance(1, 4) {
            source = crate::model::lexdecor::crlf(&source);
        }
    }
    Case { source }
}

fn strip_spans(v: &mut Value) {
    match v {
        Value::Object(m) => {
            m.remove("span");
            m.remove("doc_comment");
            for (_, x) in m.iter_mut() {
                strip_spans(x);
            }
        }
        Value::Array(a) => {
            for x in a {
                strip_spans(x);
            }
        }
        _ => {}
    }
}

/// first path at which two JSON values differ
fn first_diff(a: &Value, b: &Value, path: &str) -> Option<(String, Value, Value)> {
    match (a, b) {
        (Value::Object(x), Value::Object(y)) => {
            for (k, v) in x {
                match y.get(k) {
                    Some(w) => {
                        if let Some(d) = first_diff(v, w, &format!("{path}.{k}")) {
                            return Some(d);
                        }
                    }
                    None => return Some((format!("{path}.{k}"), v.clone(), Value::Null)),
                }
            }
            for k in y.keys() {
                if !x.contains_key(k) {
                    return Some((format!("{path}.{k}"), Value::Null, y[k].clone()));
                }
            }
            None
        }
        (Value::Array(x), Value::Array(y)) => {
            if x.len() != y.len() {
                return Some((format!("{path}.len"), json!(x.len()), json!(y.len())));
            }
            for (i, (v, w)) in x.iter().zip(y).enumerate() {
                if let Some(d) = first_diff(v, w, &format!("{path}[{i}]")) {
                    return Some(d);
                }
            }
            None
        }
        (x, y) => {
            if x == y {
                None
            } else {
                Some((path.to_string(), x.clone(), y.clone()))
            }
        }
    }
}

pub fn check(case: &Case, known: &Known) -> Outcome {
    let src = &case.source;
    let p1 = match catch(|| prqlc::prql_to_pl(src)) {
        Ok(Ok(p)) => p,
        Ok(Err(_)) => return Outcome::skip("does_not_parse").class("does_not_parse"),
        Err(p) => return Outcome::skip(&format!("parser_panic {}:{}", p.file, p.line)).class("compiler_panic"),
    };
    let f = match catch(|| prqlc::pl_to_prql(&p1)) {
        Ok(Ok(f)) => f,
        Ok(Err(e)) => return Outcome::fail("formatter returns an error", json!({"source": src, "error": util::err_reasons(&e)})),
        Err(p) => return Outcome::skip(&format!("formatter_panic {}:{}", p.file, p.line)).class("compiler_panic"),
    };
    let mut out = Outcome::pass();
    out.key = hash_of(src);
    let p2 = match catch(|| prqlc::prql_to_pl(&f)) {
        Ok(Ok(p)) => p,
        Ok(Err(e)) => {
            let mut o = Outcome::fail(
                "formatted program does not parse",
                json!({"source": src, "formatted": f, "error": util::err_reasons(&e)}),
            );
            // finding: an alias that is exactly `*` is written without backticks
            if src.contains("`*` =") && (f.contains("{* =") || f.contains(" * =")) && known.is_open(F_STAR_ALIAS) {
                o.verdict = Verdict::Known(F_STAR_ALIAS.into(), "alias `*` written as a bare *".into());
            }
            return o;
        }
        Err(p) => return Outcome::skip(&format!("parser_panic {}:{}", p.file, p.line)).class("compiler_panic"),
    };
    let (mut j1, mut j2) = (
        serde_json::to_value(&p1).unwrap_or(Value::Null),
        serde_json::to_value(&p2).unwrap_or(Value::Null),
    );
    strip_spans(&mut j1);
    strip_spans(&mut j2);
    if let Some((path, a, b)) = first_diff(&j1, &j2, "") {
        // finding: a float literal without fractional part is printed as an integer
        let float_to_int = a.get("Float").and_then(|x| x.as_f64()).map(|x| x == x.trunc()).unwrap_or(false) && b.get("Integer").is_some()
            || (path.ends_with(".Float") && b.is_null())
            || (path.ends_with(".Integer") && a.is_null());
        if float_to_int && known.is_open(F_FLOAT) {
            out.verdict = Verdict::Known(F_FLOAT.into(), format!("at {path}: {a} became {b}"));
            return out;
        }
        // finding: a statement-level aliased expression (`x = (from t)` without `let`) loses its alias
        if path.ends_with(".VarDef.value.alias") && b.is_null() && known.is_open(F_MAIN_ALIAS) {
            out.verdict = Verdict::Known(F_MAIN_ALIAS.into(), format!("at {path}: alias {a} dropped"));
            return out;
        }
        return Outcome::fail(
            "formatted program parses to a different syntax tree",
            json!({"source": src, "formatted": f, "path": path, "before": a, "after": b}),
        );
    }
    match catch(|| prqlc::pl_to_prql(&p2)) {
        Ok(Ok(f2)) => {
            if f2 != f {
                return Outcome::fail("formatting is not idempotent", json!({"source": src, "formatted": f, "formatted_twice": f2}));
            }
        }
        _ => return Outcome::fail("formatting the formatted program fails", json!({"source": src, "formatted": f})),
    }
    // same SQL (when the source compiles)
    let sql = |s: &str| -> String { format!("{:?}", util::compile(s, None)) };
    let a = sql(src);
    if a.starts_with("Sql") {
        let b = sql(&f);
        if a != b && util::genuinely_different(&|| sql(src), &|| sql(&f)) {
            return Outcome::fail("formatted program compiles to different SQL", json!({"source": src, "formatted": f, "sql_before": a, "sql_after": b}));
        }
    }
    let text = j1.to_string();
    let nested_bin = text.matches("\"Binary\"").count() >= 2;
    let wrapped = f.lines().count() > src.lines().count();
    out.nontrivial = nested_bin || text.contains("named_args\":{\"") || f.contains('`') || wrapped;
    if nested_bin {
        out.classes.push("nested_binary".into());
    }
    if wrapped {
        out.classes.push("wrapped".into());
    }
    if f.contains('`') {
        out.classes.push("backticks".into());
    }
    out.sample = Some(json!({"prql": src, "formatted": f}));
    out
}

pub fn replay_any(_c: &str, case: &Value, known: &Known) -> Option<Outcome> {
    let c: Case = serde_json::from_value(case.clone()).ok()?;
    Some(check(&c, known))
}

pub fn run(ctx: &Ctx) -> i32 {
    ctx.run_replays(|c, case| replay_any(c, case, &ctx.known));
    // the repository's own programs (book, website, tests, std library), as they are and with the first
    // table name lengthened by 9 / 18 / 27 / 36 characters (every construct moves to other columns)
    let mut corpus: Vec<Case> = vec![];
    let from_re = regex::Regex::new(r"\bfrom ([a-z][a-z0-9_]{1,20})\b").unwrap();
    for s in util::corpus_programs() {
        if let Some(name) = from_re.captures(&s).and_then(|c| c.get(1)).map(|m| m.as_str().to_string()) {
            if !["this", "that", "std", "s", "f", "r"].contains(&name.as_str()) {
                let word = regex::Regex::new(&format!(r"\b{}\b", regex::escape(&name))).unwrap();
                for k in [9usize, 18, 27, 36] {
                    corpus.push(Case { source: word.replace_all(&s, format!("{name}_{}", "x".repeat(k)).as_str()).into_owned() });
                }
            }
        }
        corpus.push(Case { source: s });
    }
    ctx.enumerate("repo-queries", corpus, |c| check(c, &ctx.known));
    // width ladder: every template at every identifier length 1..=70, so that each construct is met at
    // every column around the formatter's line widths (exhaustive over templates x lengths)
    let mut ladder = vec![];
    for tpl in WIDTH_TEMPLATES {
        for k in 1..=70usize {
            let n = format!("c{}", "x".repeat(k - 1));
            ladder.push(Case { source: format!("{}\n", tpl.replace("NAME", &n)) });
        }
    }
    ctx.enumerate("width-ladder", ladder, |c| check(c, &ctx.known));
    ctx.tape_search("generated", ctx.n(30_000, 1_000_000), 500, gen_case, |c| check(c, &ctx.known));
    if !ctx.quick() {
        ctx.fuzz_campaign("fmt_rt", ctx.fuzz_secs(300), 2048);
    }
    ctx.finish(
        "printed model programs with every construct of the generator (operator nestings with the minimal parentheses of the documented table, unary/binary adjacencies, case, in-ranges, f-strings, named and piped function arguments, let / into, nested pipelines, long tuples that force wrapping) and the repository's integration queries: format, re-parse, compare the syntax trees without spans and doc comments (first differing JSON path is reported), format again (idempotence), compile both (same SQL). non-trivial = nested binary operators, named arguments, backticks or wrapped lines; distinct = source text",
        &["comments are not part of the tree and are not compared", "SQL is compared only when the source compiles; a difference must persist over repeated compilation (compilation is not deterministic)"],
    )
}
