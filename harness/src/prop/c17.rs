//! C17 — tokens tile the source and re-lex to themselves.

use std::sync::atomic::{AtomicU64, Ordering};

use prqlc_parser::lexer::lr::TokenKind;
use prqlc_parser::lexer::{lex_source, lex_source_recovery};
use rayon::prelude::*;
use serde_json::{json, Value};

use crate::runner::{catch, hash_of, Ctx, Outcome, Verdict};
use crate::tape::Tape;

/// Finding C17-keyword-lookahead: a keyword / `true` / `false` / `null` directly followed by a
/// character outside the lexer's `end_expr` set (e.g. `true+1`, `null==x`, `let#c`) is lexed
/// as an identifier, so its slice re-lexes to a different token.
pub const F_KEYWORD: &str = "C17-keyword-lookahead";
const WORDS: &[&str] = &[
    "let", "into", "case", "prql", "type", "module", "internal", "func", "import", "enum", "true",
    "false", "null",
];

pub fn is_keyword_finding(what: &str) -> bool {
    // produced only by the re-lex clause below, in exactly this format
    WORDS.iter().any(|w| {
        // (a keyword-like word that *is* followed by an end-of-expression and still lexes as an
        // identifier is not this finding)
        what.ends_with(&format!("was Ident(\"{w}\")"))
            && what.contains(&format!("slice \"{w}\" re-lexes to "))
            && (what.contains("re-lexes to Keyword(") || what.contains("re-lexes to Literal(Boolean(") || what.contains("re-lexes to Literal(Null)"))
    })
}

pub struct Judged {
    pub accepted: bool,
    pub ntokens: usize,
    pub nkinds: usize,
}

fn kind_tag(k: &TokenKind) -> u8 {
    match k {
        TokenKind::NewLine => 0,
        TokenKind::Ident(_) => 1,
        TokenKind::Keyword(_) => 2,
        TokenKind::Literal(_) => 3,
        TokenKind::Param(_) => 4,
        TokenKind::Range { .. } => 5,
        TokenKind::Interpolation(..) => 6,
        TokenKind::Control(_) => 7,
        TokenKind::Comment(_) => 8,
        TokenKind::DocComment(_) => 9,
        TokenKind::LineWrap(_) => 10,
        TokenKind::Start => 11,
        _ => 12,
    }
}

fn inline_ws(s: &str) -> bool {
    // the lexer's whitespace() is chumsky's inline_whitespace: Unicode whitespace except
    // line terminators. The property says "only inline whitespace".
    s.chars()
        .all(|c| c.is_whitespace() && c != '\n' && c != '\r')
}

/// The oracle. Err(description) = property violated for this source.
pub fn judge(src: &str) -> Result<Judged, String> {
    let res = catch(|| lex_source(src)).map_err(|p| {
        format!("lexer panicked at {}:{}: {}", p.file, p.line, p.message)
    })?;
    let (rec_toks, rec_errs) = catch(|| lex_source_recovery(src, 1)).map_err(|p| {
        format!("lexer (recovery) panicked at {}:{}: {}", p.file, p.line, p.message)
    })?;
    match res {
        Err(errs) => {
            if errs.is_empty() {
                return Err("rejected source reports no error".into());
            }
            if rec_toks.is_some() {
                return Err("lex_source rejects but lex_source_recovery returns tokens".into());
            }
            if rec_errs.is_empty() {
                return Err("lex_source_recovery rejects with no error".into());
            }
            Ok(Judged {
                accepted: false,
                ntokens: 0,
                nkinds: 0,
            })
        }
        Ok(tokens) => {
            let toks = tokens.0;
            match rec_toks {
                None => return Err("lex_source accepts but lex_source_recovery rejects".into()),
                Some(r) => {
                    if r != toks {
                        return Err("lex_source and lex_source_recovery disagree on tokens".into());
                    }
                    if !rec_errs.is_empty() {
                        return Err("lex_source_recovery returns tokens and errors".into());
                    }
                }
            }
            if toks.is_empty() || toks[0].kind != TokenKind::Start || toks[0].span != (0..0) {
                return Err("first token is not Start 0..0".into());
            }
            let len = src.len();
            let mut prev_end = 0usize;
            let mut kinds = 0u32;
            for (i, t) in toks.iter().enumerate().skip(1) {
                let (s, e) = (t.span.start, t.span.end);
                if !(s < e && e <= len) {
                    return Err(format!("token {i} span {s}..{e} not inside source of len {len} / empty"));
                }
                if !src.is_char_boundary(s) || !src.is_char_boundary(e) {
                    return Err(format!("token {i} span {s}..{e} not on char boundaries"));
                }
                if s < prev_end {
                    return Err(format!("token {i} span {s}..{e} overlaps previous end {prev_end}"));
                }
                if !inline_ws(&src[prev_end..s]) {
                    return Err(format!(
                        "gap {:?} before token {i} is not inline whitespace",
                        &src[prev_end..s]
                    ));
                }
                prev_end = e;
                kinds |= 1 << kind_tag(&t.kind);
                // re-lex the slice in isolation
                let slice = &src[s..e];
                match catch(|| lex_source(slice)) {
                    Err(p) => return Err(format!("re-lex panicked: {}", p.message)),
                    Ok(Err(_)) => {
                        return Err(format!("token {i} slice {slice:?} does not lex in isolation"))
                    }
                    Ok(Ok(sub)) => {
                        let sub = sub.0;
                        if sub.len() != 2 || sub[0].kind != TokenKind::Start {
                            return Err(format!(
                                "token {i} slice {slice:?} re-lexes to {} tokens",
                                sub.len().saturating_sub(1)
                            ));
                        }
                        if sub[1].kind != t.kind {
                            // is the token followed by something the lexer's keyword look-ahead
                            // (`end_expr`: end, `,)]}`, tab, blank, `>`, newline, `..`) accepts?
                            let rest = &src[e..];
                            let at_end_expr = rest.is_empty()
                                || rest.starts_with([',', ')', ']', '}', '\t', ' ', '>', '\n'])
                                || rest.starts_with("\r\n")
                                || rest.starts_with("..");
                            return Err(format!(
                                "token {i} slice {slice:?}{} re-lexes to {:?}, was {:?}",
                                if at_end_expr { " (followed by an end-of-expression)" } else { "" },
                                sub[1].kind,
                                t.kind
                            ));
                        }
                        if sub[1].span != (0..slice.len()) {
                            return Err(format!(
                                "token {i} slice {slice:?} re-lexes with span {:?}",
                                sub[1].span
                            ));
                        }
                    }
                }
            }
            if !inline_ws(&src[prev_end..]) {
                return Err(format!(
                    "trailing gap {:?} is not inline whitespace",
                    &src[prev_end..]
                ));
            }
            Ok(Judged {
                accepted: true,
                ntokens: toks.len() - 1,
                nkinds: kinds.count_ones() as usize,
            })
        }
    }
}

pub fn outcome(src: &str, known: &crate::known::Known) -> Outcome {
    match judge(src) {
        Err(what) => {
            if is_keyword_finding(&what) && known.is_open(F_KEYWORD) {
                let mut o = Outcome::pass();
                o.verdict = Verdict::Known(F_KEYWORD.into(), "keyword-like word followed by a non-end_expr character lexes as identifier".into());
                return o;
            }
            Outcome::fail(&what, json!({"source": src}))
        }
        Ok(j) => {
            let mut o = Outcome::pass();
            o.nontrivial = j.accepted && j.ntokens >= 2 && j.nkinds >= 2;
            o.key = hash_of(src);
            o.classes
                .push(if j.accepted { "accepted" } else { "rejected" }.to_string());
            if o.nontrivial {
                o.sample = Some(json!(src));
            }
            o
        }
    }
}

pub const ALPHABETS: &[(&str, &[&str])] = &[
    (
        "A1-general",
        &[
            "a", "f", "r", "s", "e", "_", "0", "1", ".", "-", "+", "=", "!", "&", "|", "'", "\"",
            "\\", "#", "@", "{", "(", ":", " ", "\n", "é",
        ],
    ),
    (
        "A2-string-escape",
        &[
            "'", "\"", "\\", "n", "u", "x", "{", "}", "0", "4", "f", "s", "r", " ",
        ],
    ),
    (
        "A3-number-date-unit",
        &[
            "@", "0", "1", "2", "-", ":", ".", "T", "Z", "+", "e", "_", "x", "b", "o", "d", "a",
            "y", "s", " ",
        ],
    ),
    (
        "A4-brackets-operators",
        &[
            "(", ")", "[", "]", "{", "}", ",", "<", ">", "~", "?", "*", "/", "%", "`", "$", "|",
            "a", "1", " ", "\t", "\r", "\n",
        ],
    ),
    (
        "A6-comments",
        &[
            "#", "!", "/", "*", "-", " ", "\n", "\r", "a", "1", "\"", "@", "\\", "|", "?", "\t",
        ],
    ),
    (
        "A5-keywords",
        &[
            "l", "e", "t", "r", "u", "n", "#", ",", ".", " ", "\n", "(", ")", "'", "`", "=", "1", "|",
            "&", "+",
        ],
    ),
];

fn enumerate_alphabet(ctx: &Ctx, name: &str, alpha: &[&str], max_len: usize) {
    let k = alpha.len();
    let evals = AtomicU64::new(0);
    let nontriv = AtomicU64::new(0);
    let accepted = AtomicU64::new(0);
    let fails = AtomicU64::new(0);
    let knownc = AtomicU64::new(0);
    // work items: (length, first symbol index, second symbol index)
    let mut items: Vec<(usize, usize, usize)> = vec![];
    for len in 0..=max_len {
        if len < 2 {
            items.push((len, 0, 0));
        } else {
            for a in 0..k {
                for b in 0..k {
                    items.push((len, a, b));
                }
            }
        }
    }
    let samples = std::sync::Mutex::new(Vec::<String>::new());
    items.par_iter().for_each(|&(len, a, b)| {
        if fails.load(Ordering::Relaxed) >= 3 {
            return;
        }
        let free = if len < 2 { len } else { len - 2 };
        let mut idx = vec![0usize; free];
        let mut s = String::with_capacity(16);
        let mut le = 0u64;
        let mut ln = 0u64;
        let mut la = 0u64;
        let mut lk = 0u64;
        loop {
            s.clear();
            if len >= 2 {
                s.push_str(alpha[a]);
                s.push_str(alpha[b]);
            }
            for &i in &idx {
                s.push_str(alpha[i]);
            }
            le += 1;
            match judge(&s) {
                Ok(j) => {
                    if j.accepted {
                        la += 1;
                    }
                    if j.accepted && j.ntokens >= 2 && j.nkinds >= 2 {
                        ln += 1;
                        if ln % 50021 == 1 {
                            let mut sm = samples.lock().unwrap();
                            if sm.len() < 4 {
                                sm.push(s.clone());
                            }
                        }
                    }
                }
                Err(what) if is_keyword_finding(&what) && ctx.known.is_open(F_KEYWORD) => {
                    lk += 1;
                }
                Err(what) => {
                    fails.fetch_add(1, Ordering::Relaxed);
                    ctx.report_violation(
                        &format!("enumerate/{name}"),
                        &json!({"source": s}),
                        &what,
                        &json!({"source": s, "alphabet": name}),
                    );
                    break;
                }
            }
            // increment odometer
            let mut p = free;
            loop {
                if p == 0 {
                    p = usize::MAX;
                    break;
                }
                p -= 1;
                idx[p] += 1;
                if idx[p] < k {
                    break;
                }
                idx[p] = 0;
            }
            if p == usize::MAX || len < 2 && free == 0 {
                break;
            }
        }
        evals.fetch_add(le, Ordering::Relaxed);
        nontriv.fetch_add(ln, Ordering::Relaxed);
        accepted.fetch_add(la, Ordering::Relaxed);
        knownc.fetch_add(lk, Ordering::Relaxed);
    });
    let mut st = ctx.stats.lock().unwrap();
    st.evaluations += evals.load(Ordering::Relaxed);
    st.bulk_distinct += nontriv.load(Ordering::Relaxed);
    st.nontrivial_total += nontriv.load(Ordering::Relaxed);
    *st.per_check.entry(format!("enumerate/{name}")).or_default() += evals.load(Ordering::Relaxed);
    *st.classes.entry("accepted".into()).or_default() += accepted.load(Ordering::Relaxed);
    *st.classes.entry("rejected".into()).or_default() +=
        evals.load(Ordering::Relaxed) - accepted.load(Ordering::Relaxed);
    let kc = knownc.load(Ordering::Relaxed);
    if kc > 0 {
        let e = st.known_hits.entry(F_KEYWORD.into()).or_insert((0, "keyword-like word followed by a non-end_expr character lexes as identifier".into()));
        e.0 += kc;
    }
    for s in samples.into_inner().unwrap() {
        st.samples.push(json!({"check": format!("enumerate/{name}"), "case": s}));
    }
}

const FRAGMENTS: &[&str] = &[
    "let", "into", "case", "prql", "type", "module", "internal", "func", "import", "enum", "from",
    "select", "x", "_a1", "é", "`a b`", "`", "1", "23", "1.5", "1e3", "1_000", "0x1F", "0b101",
    "0o17", "5days", "2years", "3.hours", "@2020-01-01", "@2020-01-01T10:00:00Z", "@10:30",
    "@2020-01-01T10:00:00+08:00", "@", "..", " .. ", "..5", "a..b", "1..2", "'", "\"", "'a'",
    "\"b\"", "'''", "\"\"\"", "'''a'b'''", "r'x\\'", "r\"", "f'{a}'", "f\"{{\"", "s'{b} c'", "s\"",
    "\\n", "\\", "\\u{41}", "\\x41", "\n", "\r\n", "\r", "\n\\ ", "\n# c\n\\ ", "# comment", "#! doc",
    "#", " ", "  ", "\t", "==", "!=", ">=", "<=", "~=", "&&", "||", "??", "//", "**", "->", "=>",
    "&& ", "|| ", "+", "-", "*", "/", "%", "=", "<", ">", "!", "|", "(", ")", "[", "]", "{", "}",
    ",", ".", ":", "$1", "$x.y", "$", "true", "false", "null", "truex", "ü", "日本", "\u{a0}",
    "\u{2028}", "^", "~", "?", "&", ";",
    // numbers at and beyond the integer range, long fractions and exponents
    "9223372036854775807", "9223372036854775808", "99999999999999999999", "9_223_372_036_854_775_808", "0xFFFFFFFFFFFFFFFFF", "0b1111111111111111111111111111111111111111111111111111111111111111",
    "1e400", "1.7976931348623157e309", "0.000000000000000000000000000001", "123456789012345678901234567890.5", "18446744073709551616years", "00012",
];

pub fn gen_random(t: &mut Tape) -> String {
    let n = 1 + t.choose(40);
    let mut s = String::new();
    for _ in 0..n {
        if t.chance(1, 12) {
            // a raw char
            let c = match t.choose(4) {
                0 => (b' ' + t.choose(95) as u8) as char,
                1 => char::from_u32(0xA0 + t.choose(0x60) as u32).unwrap_or('x'),
                2 => char::from_u32(0x4E00 + t.choose(64) as u32).unwrap_or('x'),
                _ => char::from_u32(t.choose(32) as u32).unwrap_or('x'),
            };
            s.push(c);
        } else {
            s.push_str(*t.pick(FRAGMENTS));
        }
        if s.chars().count() > 200 {
            break;
        }
    }
    s
}

/// small lexically dense seeds for the libFuzzer corpus
pub fn fuzz_seeds() -> Vec<String> {
    let mut v = vec![];
    for i in 0..40u64 {
        let words: Vec<u16> = (0..120u64).map(|k| ((i * 7919 + k * 104729 + (i * k) % 251) % 65536) as u16).collect();
        let mut t = Tape::new(&words);
        v.push(gen_random(&mut t));
    }
    v
}

pub fn run(ctx: &Ctx) -> i32 {
    let corpus: Vec<serde_json::Value> = crate::util::corpus_programs().into_iter().map(|s| json!({"source": s})).collect();
    ctx.enumerate("repo-corpus", corpus, |c| outcome(c["source"].as_str().unwrap_or(""), &ctx.known));
    ctx.run_replays(|_check, case| {
        let src = case.get("source")?.as_str()?;
        Some(outcome(src, &ctx.known))
    });
    let max_len = if ctx.quick() { 5 } else { 6 };
    let max_len = std::env::var("C17_MAXLEN")
        .ok()
        .and_then(|s| s.parse().ok())
        .unwrap_or(max_len);
    for (name, alpha) in ALPHABETS {
        enumerate_alphabet(ctx, name, alpha, max_len);
    }
    ctx.stats.lock().unwrap().exhaustive = Some(true);
    ctx.set_extra(
        "exhaustive_bound",
        json!({"alphabets": ALPHABETS.iter().map(|(n,a)| json!({"name": n, "symbols": a})).collect::<Vec<_>>(), "max_len": max_len}),
    );
    ctx.tape_search(
        "random-fragments",
        ctx.n(60_000, 3_000_000),
        96,
        |t| json!({"source": gen_random(t)}),
        |c: &Value| outcome(c["source"].as_str().unwrap(), &ctx.known),
    );
    if !ctx.quick() {
        ctx.fuzz_campaign("lex_tile", ctx.fuzz_secs(240), 512);
    }
    ctx.finish(
        "every string over each themed alphabet up to max_len (exhaustive) plus random concatenations of lexical fragments up to 200 chars; non-trivial = accepted with >= 2 tokens of >= 2 kinds; distinct = distinct source string (enumeration is duplicate-free by construction, random part by hash)",
        &["byte offsets on char boundaries are what the lexer reports (token spans are byte ranges)", "inline whitespace = Unicode whitespace other than CR/LF (what the lexer's whitespace() consumes)"],
    )
}

#[allow(dead_code)]
fn _unused(_: Verdict) {}
