pub mod c01;
pub mod c02;
pub mod c03;
pub mod c04;
pub mod c06;
pub mod c07;
pub mod c08;
pub mod c09b;
pub mod c10;
pub mod c11;
pub mod c12;
pub mod c13;
pub mod c14;
pub mod c15;
pub mod c16;
pub mod c17;
pub mod c18;

use crate::runner::Ctx;
use std::path::Path;

pub fn run(ctx: &Ctx) -> i32 {
    match ctx.property.as_str() {
        "C01" => c01::run(ctx),
        "C02" => c02::run(ctx),
        "C03" => c03::run(ctx),
        "C04" => c04::run(ctx),
        "C05" => c07::run_c05(ctx),
        "C06" => c06::run(ctx),
        "C07" => c07::run_c07(ctx),
        "C08" => c08::run(ctx),
        "C09" => c07::run_c09(ctx),
        "C10" => c10::run(ctx),
        "C11" => c11::run(ctx),
        "C12" => c12::run(ctx),
        "C13" => c13::run(ctx),
        "C14" => c14::run(ctx),
        "C15" => c15::run(ctx),
        "C16" => c16::run(ctx),
        "C17" => c17::run(ctx),
        "C18" => c18::run(ctx),
        other => {
            eprintln!("unknown property {other}");
            2
        }
    }
}

/// `pv replay <ID> <file>`: strict re-evaluation of one stored case.
pub fn replay(ctx: &Ctx, file: &Path) -> i32 {
    let r = match ctx.property.as_str() {
        "C01" => ctx.replay_file(file, &|c: &str, case: &serde_json::Value| c01::replay_any(c, case, &ctx.known)),
        "C02" => ctx.replay_file(file, &|c: &str, case: &serde_json::Value| c02::replay_any(c, case, &ctx.known)),
        "C03" => ctx.replay_file(file, &|c: &str, case: &serde_json::Value| c03::replay_any(c, case, &ctx.known)),
        "C04" => ctx.replay_file(file, &|c: &str, case: &serde_json::Value| c04::replay_any(c, case, &ctx.known)),
        "C18" => ctx.replay_file(file, &|c: &str, case: &serde_json::Value| c18::replay_any(c, case, &ctx.known)),
        "C05" => ctx.replay_file(file, &|c: &str, case: &serde_json::Value| c07::replay_any(c, case, &ctx.known, c07::Mode::C05)),
        "C06" => ctx.replay_file(file, &|c: &str, case: &serde_json::Value| c06::replay_any(c, case, &ctx.known)),
        "C07" => ctx.replay_file(file, &|c: &str, case: &serde_json::Value| c07::replay_any(c, case, &ctx.known, c07::Mode::C07)),
        "C08" => ctx.replay_file(file, &|c: &str, case: &serde_json::Value| c08::replay_any(c, case, &ctx.known)),
        "C09" => ctx.replay_file(file, &|c: &str, case: &serde_json::Value| c07::replay_any(c, case, &ctx.known, c07::Mode::C09)),
        "C10" => ctx.replay_file(file, &|c: &str, case: &serde_json::Value| c10::replay_any(c, case, &ctx.known)),
        "C11" => ctx.replay_file(file, &|c: &str, case: &serde_json::Value| c11::replay_any(c, case, &ctx.known)),
        "C12" => ctx.replay_file(file, &|c: &str, case: &serde_json::Value| c12::replay_any(c, case, &ctx.known)),
        "C13" => ctx.replay_file(file, &|c: &str, case: &serde_json::Value| c13::replay_any(c, case, &ctx.known)),
        "C14" => ctx.replay_file(file, &|c: &str, case: &serde_json::Value| c14::replay_any(c, case, &ctx.known)),
        "C15" => ctx.replay_file(file, &|c: &str, case: &serde_json::Value| c15::replay_any(c, case, &ctx.known)),
        "C16" => ctx.replay_file(file, &|c: &str, case: &serde_json::Value| c16::replay_any(c, case, &ctx.known)),
        "C17" => ctx.replay_file(file, &|_c: &str, case: &serde_json::Value| {
            Some(c17::outcome(case.get("source")?.as_str()?, &ctx.known))
        }),
        _ => None,
    };
    match r {
        Some(true) => {
            println!("replay passed");
            0
        }
        Some(false) => 1,
        None => {
            eprintln!("replay file not understood");
            2
        }
    }
}

pub fn aux(args: &[String]) -> i32 {
    match args.first().map(|s| s.as_str()) {
        Some("worker") => c12::worker_main(),
        Some("oneshot") => c11::oneshot_main(),
        Some("fuzz") if args.len() >= 3 => {
            let seed: u64 = std::env::var("VERIF_SEED").ok().and_then(|s| s.trim().parse().ok()).unwrap_or(1);
            crate::fuzzrun::fuzz_main(&args[1], args[2].parse().unwrap_or(30), args.get(3).and_then(|s| s.parse().ok()).unwrap_or(2048), seed)
        }
        Some("fuzzjudge") if args.len() >= 3 => crate::fuzzrun::fuzzjudge_main(&args[1], &args[2]),
        Some("fuzzcorpus") if args.len() >= 3 => crate::fuzzrun::fuzzcorpus_main(&args[1], &args[2]),
        Some("depth") if args.len() >= 3 => c12::depth_child(&args[1], args[2].parse().unwrap_or(1)),
        _ => {
            eprintln!("unknown subcommand");
            2
        }
    }
}
