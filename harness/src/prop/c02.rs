//! C02 — operator precedence, associativity, null and literal folding survive to SQL.
//!
//! `from v | select {id, r = <expr>}` over a table holding a cross product of the value domain is
//! executed on SQLite and compared row by row with the reference scalar evaluator applied to the
//! *intended* tree (the printer parenthesises from the documented table only).

use serde::{Deserialize, Serialize};
use serde_json::{json, Value};

use crate::known::Known;
use crate::model::ast::*;
use crate::model::eval::Interp;
use crate::model::exec;
use crate::model::print::Printer;
use crate::model::val::{cell_eq, Ty, Val};
use crate::runner::{hash_of, Ctx, Outcome, Verdict};
use crate::tape::Tape;
use crate::util::{self, Compiled};

#[derive(Clone, Debug, Serialize, Deserialize)]
pub struct Case {
    pub expr: Expr,
    pub target: String,
}

const COLS: &[(&str, Ty)] = &[
    ("id", Ty::Int),
    ("i1", Ty::Int),
    ("i2", Ty::Int),
    ("f1", Ty::Float),
    ("b1", Ty::Bool),
    ("s1", Ty::Text),
];

pub fn value_db() -> Db {
    let ints = [Val::Null, Val::Int(-2), Val::Int(0), Val::Int(1), Val::Int(3)];
    let floats = [Val::Float(0.5), Val::Float(-1.5), Val::Null];
    let bools = [Val::Bool(true), Val::Bool(false), Val::Null];
    let texts = [Val::Null, Val::Text("a".into()), Val::Text("b".into())];
    let mut rows = vec![];
    let mut id = 0;
    for a in &ints {
        for b in &ints {
            for f in &floats {
                for bo in &bools {
                    for s in &texts {
                        id += 1;
                        rows.push(vec![
                            Val::Int(id),
                            a.clone(),
                            b.clone(),
                            f.clone(),
                            bo.clone(),
                            s.clone(),
                        ]);
                    }
                }
            }
        }
    }
    Db {
        tables: vec![Table {
            name: "v".into(),
            cols: COLS
                .iter()
                .map(|(n, t)| Column {
                    name: n.to_string(),
                    ty: *t,
                })
                .collect(),
            rows,
        }],
    }
}

fn col(name: &str) -> Expr {
    let idx = COLS.iter().position(|(n, _)| *n == name).unwrap();
    Expr::col(idx, name)
}

// ------------------------------------------------------------------------------------------
// typed random trees (all operators, no exclusions)

fn leaf(t: &mut Tape, ty: Ty) -> Expr {
    match ty {
        Ty::Int => match t.choose(6) {
            0 => col("i1"),
            1 => col("i2"),
            2 => Expr::Lit(Val::Int(t.range(0, 4))),
            3 => Expr::int(-t.range(1, 3)),
            4 => Expr::Lit(Val::Null),
            _ => col("i1"),
        },
        Ty::Float => match t.choose(4) {
            0 => col("f1"),
            1 => Expr::Lit(Val::Float(t.range(1, 9) as f64 / 4.0)),
            2 => Expr::Lit(Val::Null),
            _ => col("f1"),
        },
        Ty::Bool => match t.choose(5) {
            0 => col("b1"),
            1 => Expr::Lit(Val::Bool(true)),
            2 => Expr::Lit(Val::Bool(false)),
            3 => Expr::Lit(Val::Null),
            _ => col("b1"),
        },
        Ty::Text => match t.choose(4) {
            0 => col("s1"),
            1 => Expr::Lit(Val::Text(t.pick(&["a", "b", ""]).to_string())),
            2 => Expr::Lit(Val::Null),
            _ => col("s1"),
        },
    }
}

pub fn tree(t: &mut Tape, ty: Ty, depth: usize) -> Expr {
    if depth == 0 || !t.chance(4, 5) {
        return leaf(t, ty);
    }
    let d = depth - 1;
    let num = |t: &mut Tape| if t.chance(1, 3) { Ty::Float } else { Ty::Int };
    match ty {
        Ty::Int => match t.choose(10) {
            0 => Expr::bin(BinOp::Add, tree(t, Ty::Int, d), tree(t, Ty::Int, d)),
            1 => Expr::bin(BinOp::Sub, tree(t, Ty::Int, d), tree(t, Ty::Int, d)),
            2 => Expr::bin(BinOp::Mul, tree(t, Ty::Int, d), tree(t, Ty::Int, d)),
            3 => Expr::bin(BinOp::Mod, tree(t, Ty::Int, d), tree(t, Ty::Int, d)),
            4 => Expr::bin(BinOp::DivI, tree(t, Ty::Int, d), tree(t, Ty::Int, d)),
            5 => Expr::Un(UnOp::Neg, Box::new(tree(t, Ty::Int, d))),
            6 => Expr::Un(UnOp::Pos, Box::new(tree(t, Ty::Int, d))),
            7 => Expr::bin(BinOp::Coalesce, tree(t, Ty::Int, d), tree(t, Ty::Int, d)),
            8 => case(t, Ty::Int, d),
            _ => Expr::Paren(Box::new(tree(t, Ty::Int, d))),
        },
        Ty::Float => match t.choose(9) {
            0 => {
                let op = *t.pick(&[BinOp::Add, BinOp::Sub, BinOp::Mul]);
                let (a, b) = (num(t), Ty::Float);
                if t.chance(1, 2) {
                    Expr::bin(op, tree(t, a, d), tree(t, b, d))
                } else {
                    Expr::bin(op, tree(t, b, d), tree(t, a, d))
                }
            }
            1 => {
                let (a, b) = (num(t), num(t));
                Expr::bin(BinOp::DivF, tree(t, a, d), tree(t, b, d))
            }
            2 => {
                let l = tree(t, Ty::Float, d);
                let rt = num(t);
                Expr::bin(BinOp::DivI, l, tree(t, rt, d))
            }
            3 => {
                let a = num(t);
                Expr::bin(BinOp::Pow, tree(t, a, d), Expr::Lit(Val::Int(t.range(0, 3))))
            }
            4 => Expr::bin(
                BinOp::Pow,
                tree(t, Ty::Int, d.min(1)),
                Expr::bin(BinOp::Pow, Expr::Lit(Val::Int(t.range(1, 2))), Expr::Lit(Val::Int(t.range(0, 2)))),
            ),
            5 => Expr::Un(UnOp::Neg, Box::new(tree(t, Ty::Float, d))),
            6 => Expr::bin(BinOp::Coalesce, tree(t, Ty::Float, d), tree(t, Ty::Float, d)),
            7 => case(t, Ty::Float, d),
            _ => Expr::bin(BinOp::Pow, Expr::bin(BinOp::Pow, tree(t, Ty::Int, 0), Expr::Lit(Val::Int(2))), Expr::Lit(Val::Int(t.range(0, 2)))),
        },
        Ty::Bool => match t.choose(10) {
            9 => {
                // two-sided range check over one operand: both bound orders, inclusive or strict
                let ty = num(t);
                let e = tree(t, ty, d.min(1));
                let lo = t.range(-2, 2);
                let hi = lo + t.range(0, 3);
                let (ge, le) = if t.chance(3, 4) { (BinOp::Gte, BinOp::Lte) } else { (BinOp::Gt, BinOp::Lt) };
                let lower = Expr::bin(ge, e.clone(), Expr::int(lo));
                let upper = Expr::bin(le, e, Expr::int(hi));
                if t.chance(1, 2) {
                    Expr::bin(BinOp::And, lower, upper)
                } else {
                    Expr::bin(BinOp::And, upper, lower)
                }
            }
            0 | 1 => {
                let op = *t.pick(&[BinOp::Eq, BinOp::Ne, BinOp::Lt, BinOp::Gt, BinOp::Lte, BinOp::Gte]);
                let ty = *t.pick(&[Ty::Int, Ty::Int, Ty::Float, Ty::Text]);
                let rty = if ty == Ty::Int && t.chance(1, 4) { Ty::Float } else { ty };
                Expr::bin(op, tree(t, ty, d), tree(t, rty, d))
            }
            2 => {
                let op = if t.chance(1, 2) { BinOp::Eq } else { BinOp::Ne };
                Expr::bin(op, tree(t, Ty::Bool, d), tree(t, Ty::Bool, d))
            }
            3 => Expr::bin(BinOp::And, tree(t, Ty::Bool, d), tree(t, Ty::Bool, d)),
            4 => Expr::bin(BinOp::Or, tree(t, Ty::Bool, d), tree(t, Ty::Bool, d)),
            5 => Expr::Un(UnOp::Not, Box::new(tree(t, Ty::Bool, d))),
            6 => {
                let lo = t.range(-2, 2);
                let hi = lo + t.range(0, 3);
                let ty = num(t);
                Expr::In(
                    Box::new(tree(t, ty, d)),
                    if t.chance(1, 6) { None } else { Some(Box::new(Expr::int(lo))) },
                    if t.chance(1, 6) { None } else { Some(Box::new(Expr::int(hi))) },
                )
            }
            7 => Expr::bin(BinOp::Coalesce, tree(t, Ty::Bool, d), tree(t, Ty::Bool, d)),
            _ => case(t, Ty::Bool, d),
        },
        Ty::Text => match t.choose(3) {
            0 => Expr::bin(BinOp::Coalesce, tree(t, Ty::Text, d), tree(t, Ty::Text, d)),
            1 => case(t, Ty::Text, d),
            _ => leaf(t, Ty::Text),
        },
    }
}

fn case(t: &mut Tape, ty: Ty, d: usize) -> Expr {
    let n = 1 + t.choose(2);
    let mut bs = vec![];
    for _ in 0..n {
        bs.push((tree(t, Ty::Bool, d), tree(t, ty, d)));
    }
    if t.chance(1, 2) {
        bs.push((Expr::Lit(Val::Bool(true)), tree(t, ty, d.min(1))));
    }
    Expr::Case(bs)
}

/// The same trees under the dialects SQLite is not: their SQL is executed on SQLite whenever SQLite
/// accepts the text (operators, CASE, COALESCE, TRUNC / ROUND / ABS / SIGN / POW / MOD mean the same
/// there); a statement SQLite cannot prepare is not judged. `/` is left out (it is the engine's
/// division in most dialects).
pub fn gen_case_other_dialect(t: &mut Tape) -> Case {
    let mut c = gen_case(t);
    c.target = t.pick(&["postgres", "duckdb", "glaredb", "mysql", "mssql", "clickhouse", "bigquery", "snowflake", "ansi", "redshift"]).to_string();
    c
}

/// a tree whose top-level right operand is shared through a derived column (see `check`)
pub fn gen_case_shared(t: &mut Tape) -> Case {
    let mut c = gen_case(t);
    // a binary top: arithmetic / comparison over sub-trees
    let ty = *t.pick(&[Ty::Int, Ty::Float, Ty::Int]);
    let op = *t.pick(&[BinOp::DivF, BinOp::Mod, BinOp::DivI, BinOp::Mul, BinOp::Sub, BinOp::Add, BinOp::Pow]);
    let (dl, dr) = (1 + t.choose(2), 1 + t.choose(3));
    let l = tree(t, ty, dl);
    let r = tree(t, ty, dr);
    c.expr = Expr::Bin(op, Box::new(l), Box::new(r));
    c.target = format!("{}+shared", t.pick(&["sqlite", "sqlite", "generic", "postgres", "duckdb", "mysql", "clickhouse", "mssql"]));
    c
}

pub fn gen_case(t: &mut Tape) -> Case {
    let target = if t.chance(1, 2) { "generic" } else { "sqlite" }.to_string();
    let ty = *t.pick(&[Ty::Int, Ty::Bool, Ty::Float, Ty::Int, Ty::Bool, Ty::Text]);
    let depth = 1 + t.choose(5);
    Case {
        expr: tree(t, ty, depth),
        target,
    }
}

// ------------------------------------------------------------------------------------------
// exhaustive (parent, child, side) table

fn operand_types(op: BinOp) -> Vec<(Ty, Ty, Ty)> {
    // (left, right, result)
    use Ty::*;
    match op {
        BinOp::Add | BinOp::Sub | BinOp::Mul => vec![(Int, Int, Int), (Float, Int, Float), (Int, Float, Float)],
        BinOp::Mod => vec![(Int, Int, Int)],
        BinOp::DivI => vec![(Int, Int, Int), (Float, Int, Float)],
        BinOp::DivF => vec![(Int, Int, Float), (Float, Int, Float)],
        BinOp::Pow => vec![(Int, Int, Float)],
        BinOp::Eq | BinOp::Ne => vec![(Int, Int, Bool), (Text, Text, Bool), (Bool, Bool, Bool), (Float, Float, Bool)],
        BinOp::Lt | BinOp::Gt | BinOp::Lte | BinOp::Gte => vec![(Int, Int, Bool), (Text, Text, Bool), (Float, Int, Bool)],
        BinOp::Coalesce => vec![(Int, Int, Int), (Bool, Bool, Bool), (Text, Text, Text), (Float, Float, Float)],
        BinOp::And | BinOp::Or => vec![(Bool, Bool, Bool)],
    }
}

fn std_leaf(ty: Ty, k: usize) -> Expr {
    match ty {
        Ty::Int => [col("i1"), col("i2"), Expr::Lit(Val::Int(2)), Expr::int(-1)][k % 4].clone(),
        Ty::Float => [col("f1"), Expr::Lit(Val::Float(1.5)), col("f1")][k % 3].clone(),
        Ty::Bool => [col("b1"), Expr::bin(BinOp::Gt, col("i1"), Expr::Lit(Val::Int(0))), col("b1")][k % 3].clone(),
        Ty::Text => [col("s1"), Expr::Lit(Val::Text("a".into())), col("s1")][k % 3].clone(),
    }
}

pub fn triples() -> Vec<Case> {
    let mut out = vec![];
    for target in ["sqlite", "generic", "postgres", "duckdb", "mssql", "clickhouse"] {
        for &p in ALL_BINOPS {
            for &c in ALL_BINOPS {
                for side in 0..2 {
                    for (pl, pr, _) in operand_types(p) {
                        let want = if side == 0 { pl } else { pr };
                        for (cl, cr, cres) in operand_types(c) {
                            if cres != want && !(want == Ty::Float && cres == Ty::Int && p != BinOp::Coalesce) {
                                continue;
                            }
                            // k = 0,1: leaf operands; k = 2..4: the child's own operands are
                            // parenthesised sub-expressions (left / right / both), so that the child's
                            // SQL text starts with "(" and/or ends with ")"
                            for k in 0..5 {
                                let wrap = |e: Expr, ty: Ty| -> Expr {
                                    match ty {
                                        Ty::Int | Ty::Float => Expr::bin(BinOp::Add, e, Expr::Lit(Val::Int(1))),
                                        Ty::Bool => Expr::bin(BinOp::Or, e, Expr::bin(BinOp::Lt, col("i2"), Expr::Lit(Val::Int(0)))),
                                        Ty::Text => Expr::bin(BinOp::Coalesce, e, Expr::Lit(Val::Text("b".into()))),
                                    }
                                };
                                let (lw, rw) = match k {
                                    2 => (true, false),
                                    3 => (false, true),
                                    4 => (true, true),
                                    _ => (false, false),
                                };
                                let mut lo = std_leaf(cl, k);
                                let mut ro = std_leaf(cr, k + 1);
                                if lw {
                                    lo = wrap(lo, cl);
                                }
                                if rw {
                                    ro = wrap(ro, cr);
                                }
                                let child = Expr::bin(c, lo, ro);
                                let other = std_leaf(if side == 0 { pr } else { pl }, k + 2);
                                let e = if side == 0 {
                                    Expr::bin(p, child, other)
                                } else {
                                    Expr::bin(p, other, child)
                                };
                                out.push(Case {
                                    expr: e.clone(),
                                    target: target.into(),
                                });
                                // the same tree under a unary operator and inside a larger context
                                if k == 0 {
                                    let (_, _, pres) = (pl, pr, operand_types(p).iter().find(|x| x.0 == pl && x.1 == pr).unwrap().2);
                                    match pres {
                                        Ty::Int | Ty::Float => {
                                            out.push(Case { expr: Expr::Un(UnOp::Neg, Box::new(e.clone())), target: target.into() });
                                            out.push(Case { expr: Expr::bin(BinOp::Sub, col("i2"), e.clone()), target: target.into() });
                                            out.push(Case { expr: Expr::bin(BinOp::Mul, e.clone(), col("i2")), target: target.into() });
                                        }
                                        Ty::Bool => {
                                            out.push(Case { expr: Expr::Un(UnOp::Not, Box::new(e.clone())), target: target.into() });
                                            out.push(Case { expr: Expr::bin(BinOp::And, col("b1"), e.clone()), target: target.into() });
                                        }
                                        Ty::Text => {}
                                    }
                                }
                            }
                        }
                    }
                }
            }
            // unary under / over each binary operator
            for (pl, pr, _) in operand_types(p) {
                for side in 0..2 {
                    let want = if side == 0 { pl } else { pr };
                    let un = match want {
                        Ty::Int | Ty::Float => Expr::Un(UnOp::Neg, Box::new(std_leaf(want, 0))),
                        Ty::Bool => Expr::Un(UnOp::Not, Box::new(std_leaf(want, 0))),
                        Ty::Text => continue,
                    };
                    let other = std_leaf(if side == 0 { pr } else { pl }, 1);
                    let e = if side == 0 { Expr::bin(p, un, other) } else { Expr::bin(p, other, un) };
                    out.push(Case { expr: e, target: target.into() });
                }
            }
        }
    }
    out
}

// ------------------------------------------------------------------------------------------
// finding predicates (precise, over the intended tree)

fn strip(e: &Expr) -> &Expr {
    match e {
        Expr::Paren(x) => strip(x),
        // unary plus is dropped by the compiler
        Expr::Un(UnOp::Pos, x) => strip(x),
        e => e,
    }
}

fn sql_starts_with_minus(e: &Expr) -> bool {
    match strip(e) {
        Expr::Un(UnOp::Neg, _) => true,
        Expr::Un(UnOp::Pos, x) => sql_starts_with_minus(x),
        Expr::Lit(Val::Int(i)) => *i < 0,
        Expr::Lit(Val::Float(f)) => *f < 0.0,
        // binary operators print their left operand first
        // `null ?? x` folds to x
        Expr::Bin(BinOp::Coalesce, l, r) => sql_starts_with_minus(l) || sql_starts_with_minus(r),
        Expr::Bin(_, l, _) => sql_starts_with_minus(l),
        // a case with constant conditions folds to one of its branches
        Expr::Case(bs) => bs.iter().any(|(_, v)| sql_starts_with_minus(v)),
        _ => false,
    }
}

/// C02-double-negation: `-x` where the SQL of x starts with a minus
pub fn has_neg_neg(e: &Expr) -> bool {
    let mut hit = false;
    e.walk(&mut |x| {
        if let Expr::Un(UnOp::Neg, inner) = x {
            if sql_starts_with_minus(inner) {
                hit = true;
            }
        }
    });
    hit
}

/// C02-mul-right-operand-parens: `a * (b % c)` / `a * (b / c)`
pub fn has_mul_right(e: &Expr) -> bool {
    // right operand is a mul-level expression whose left spine contains % or /
    fn spine_has_mod_div(e: &Expr) -> bool {
        match strip(e) {
            Expr::Bin(op, l, _) if op.level() == 5 => {
                matches!(op, BinOp::Mod | BinOp::DivF) || spine_has_mod_div(l)
            }
            Expr::Un(UnOp::Neg, x) => spine_has_mod_div(x),
            Expr::Case(bs) => bs.iter().any(|(_, v)| spine_has_mod_div(v)),
            // `null ?? x` folds to x
            Expr::Bin(BinOp::Coalesce, l, r) => spine_has_mod_div(l) || spine_has_mod_div(r),
            _ => false,
        }
    }
    let mut hit = false;
    e.walk(&mut |x| {
        if let Expr::Bin(BinOp::Mul, _, r) = x {
            if spine_has_mod_div(r) {
                hit = true;
            }
        }
    });
    hit
}

/// C02-divi-template-strength: `x % (a // b)`: the `//` template is a product but declares
/// binding strength 100, so it is not parenthesised as the right operand of `%`
pub fn has_mod_divi_right(e: &Expr) -> bool {
    fn spine_has_divi(e: &Expr) -> bool {
        match strip(e) {
            Expr::Bin(BinOp::DivI, ..) => true,
            Expr::Un(UnOp::Neg, x) => spine_has_divi(x),
            Expr::Case(bs) => bs.iter().any(|(_, v)| spine_has_divi(v)),
            Expr::Bin(BinOp::Coalesce, l, r) => spine_has_divi(l) || spine_has_divi(r),
            Expr::Bin(op, l, _) if op.level() == 5 => spine_has_divi(l),
            _ => false,
        }
    }
    let mut hit = false;
    e.walk(&mut |x| {
        if let Expr::Bin(BinOp::Mod | BinOp::DivF, _, r) = x {
            if spine_has_divi(r) {
                hit = true;
            }
        }
    });
    hit
}

/// C02-compare-right-operand-parens: `a == (b == c)` (a comparison as the right operand of a comparison)
pub fn has_cmp_right(e: &Expr) -> bool {
    let mut hit = false;
    e.walk(&mut |x| {
        if let Expr::Bin(op, _, r) = x {
            if op.is_compare() {
                fn cmp_like(e: &Expr) -> bool {
                    match strip(e) {
                        Expr::Bin(rop, ..) if rop.is_compare() => true,
                        // `x | in a..b` becomes BETWEEN, which binds like a comparison
                        Expr::In(..) => true,
                        // a case with constant conditions folds to one of its branches
                        Expr::Case(bs) => bs.iter().any(|(_, v)| cmp_like(v)),
                        Expr::Bin(BinOp::Coalesce, l, r) => cmp_like(l) || cmp_like(r),
                        _ => false,
                    }
                }
                if cmp_like(r) {
                    hit = true;
                }
            }
        }
    });
    hit
}

fn is_const(e: &Expr) -> bool {
    let mut c = true;
    e.walk(&mut |x| {
        if matches!(x, Expr::Col(_)) {
            c = false
        }
    });
    c
}

/// C02-const-null-fold: `==` / `!=` with a constant operand that evaluates to null without
/// being the literal null
pub fn has_const_null_cmp(e: &Expr, interp: &Interp) -> bool {
    let mut hit = false;
    let rows = &interp.db.tables[0].rows;
    e.walk(&mut |x| {
        if let Expr::Bin(BinOp::Eq | BinOp::Ne, l, r) = x {
            for side in [l, r] {
                let s = strip(side);
                if matches!(s, Expr::Lit(Val::Null)) {
                    continue;
                }
                // a side that is null whatever the row (constant, or a case that folds to null)
                let foldable = is_const(s) || {
                    let mut c = false;
                    s.walk(&mut |y| {
                        if matches!(y, Expr::Case(_)) {
                            c = true
                        }
                    });
                    c
                };
                if foldable && rows.iter().all(|r| matches!(interp.scalar(s, r), Ok(Val::Null))) {
                    hit = true;
                }
            }
        }
    });
    hit
}

// ------------------------------------------------------------------------------------------

pub fn check(case: &Case, known: &Known, db: &Db) -> Outcome {
    // `<dialect>+shared`: the right operand of the top-level operator is derived as a column of its
    // own and referenced twice (once alone, once as the operand); the judged value is the second use
    let shared = case.target.ends_with("+shared") && matches!(case.expr, Expr::Bin(..));
    let target: &str = case.target.trim_end_matches("+shared");
    let printer = Printer { funcs: &[], redundant: false, cur_module: None };
    let text = printer.expr(&case.expr);
    let src = match (&case.expr, shared) {
        (Expr::Bin(op, l, r), true) => {
            let with_col = Expr::Bin(*op, l.clone(), Box::new(Expr::Col(crate::model::ast::ColRef { idx: 0, text: "zs".into() })));
            format!("from v | derive {{zs = {}}} | select {{id, r0 = zs, r = {}}}", printer.expr(r), printer.expr(&with_col))
        }
        _ => format!("from v | select {{id, r = {text}}}"),
    };
    let vi = if shared { 2 } else { 1 };
    let dialect = util::dialect_by_name(&target);
    // generic emits the engine's `/`: integer / integer is not executable faithfully on SQLite
    if target != "sqlite" {
        let mut int_div = false;
        case.expr.walk(&mut |x| {
            if let Expr::Bin(BinOp::DivF, ..) = x {
                int_div = true;
            }
        });
        if int_div {
            return Outcome::skip("generic `/` (engine division) not comparable on SQLite").class("generic_div_excluded");
        }
    }
    let sql = match util::compile(&src, dialect) {
        Compiled::Sql(s) => s,
        Compiled::Err(rs) => {
            return Outcome::skip(&format!(
                "rejected_by_compiler: {}",
                util::reason_class(rs.first().map(|s| s.as_str()).unwrap_or(""))
            ))
            .class("rejected_by_compiler")
        }
        Compiled::Panic(p) => return Outcome::skip(&format!("compiler_panic: {}:{}", p.file, p.line)).class("compiler_panic"),
    };
    let prog = Prog {
        funcs: vec![],
        lets: vec![],
        main: Pipeline {
            source: Source {
                kind: SrcKind::Table("v".into()),
                alias: None,
            },
            steps: vec![],
        },
        surface: Surface::default(),
    };
    let interp = Interp::new(db, &prog);
    let attribute = |interp: &Interp| -> Option<(String, String)> {
        let cands: [(&str, bool); 6] = [
            ("C02-divi-template-strength", has_mod_divi_right(&case.expr)),
            ("C02-compare-right-operand-parens", has_cmp_right(&case.expr)),
            ("C02-double-negation", has_neg_neg(&case.expr)),
            ("C02-mul-right-operand-parens", has_mul_right(&case.expr)),
            ("C02-const-null-fold", has_const_null_cmp(&case.expr, interp)),
            (
                "C02-sqlite-divi-small-int",
                target == "sqlite" && interp.touched.borrow().divi_small_int,
            ),
        ];
        for (id, hit) in cands {
            if hit && known.is_open(id) {
                return Some((id.to_string(), format!("expression {text}")));
            }
        }
        None
    };
    let res = match exec::run_cached(0xC02, db, &sql) {
        Ok(r) => r,
        Err(e) => {
            let m = e.msg().to_string();
            if target != "sqlite" && (m.contains("no such function") || m.contains("near \"") || m.contains("unrecognized token") || m.contains("wrong number of arguments")) && !m.contains("incomplete") {
                return Outcome::skip("generic_not_executable").class("generic_not_executable");
            }
            // evaluate once so that `touched` is filled for attribution
            for r in &db.tables[0].rows {
                let _ = interp.scalar(&case.expr, r);
            }
            let mut o = Outcome::fail("emitted SQL fails on SQLite", json!({"source": src, "sql": sql, "error": m}));
            if let Some((id, what)) = attribute(&interp) {
                o.verdict = Verdict::Known(id, what);
            }
            return o;
        }
    };
    let rows = &db.tables[0].rows;
    let mut by_id: Vec<Option<&Val>> = vec![None; rows.len() + 1];
    for r in &res.rows {
        if let Val::Int(i) = &r[0] {
            if (*i as usize) < by_id.len() {
                by_id[*i as usize] = r.get(vi);
            }
        }
    }
    let mut judged = 0;
    let mut amb = 0;
    let mut distinct_vals: Vec<String> = vec![];
    let mut nonnull = false;
    let mut bad: Option<(usize, Val, Val)> = None;
    for (i, r) in rows.iter().enumerate() {
        let expect = match interp.scalar(&case.expr, r) {
            Ok(v) => v,
            Err(_) => {
                amb += 1;
                continue;
            }
        };
        judged += 1;
        let Some(got) = by_id[i + 1] else {
            bad = Some((i, expect, Val::Text("<row missing>".into())));
            break;
        };
        if !expect.is_null() {
            nonnull = true;
        }
        let k = crate::model::val::cell_key(&expect);
        if distinct_vals.len() < 3 && !distinct_vals.contains(&k) {
            distinct_vals.push(k);
        }
        if !cell_eq(&expect, got) && bad.is_none() {
            bad = Some((i, expect, got.clone()));
        }
    }
    // a boolean tree is also judged as the condition of a filter (the SQL back-end normalises
    // conditions of filters and joins separately): the surviving ids are the rows where it is true
    if bad.is_none() && amb == 0 {
        let all_bool = rows.iter().all(|r| matches!(interp.scalar(&case.expr, r), Ok(Val::Bool(_)) | Ok(Val::Null)));
        if all_bool {
            let fsrc = format!("from v | filter {text} | select {{id}}");
            if let Compiled::Sql(fsql) = util::compile(&fsrc, dialect) {
                if let Ok(fres) = exec::run_cached(0xC02, db, &fsql) {
                    let mut got: Vec<i64> = fres.rows.iter().filter_map(|r| if let Val::Int(i) = &r[0] { Some(*i) } else { None }).collect();
                    got.sort();
                    let mut want: Vec<i64> = vec![];
                    for (i, r) in rows.iter().enumerate() {
                        if matches!(interp.scalar(&case.expr, r), Ok(Val::Bool(true))) {
                            want.push(i as i64 + 1);
                        }
                    }
                    if got != want {
                        let detail = json!({"source": fsrc, "sql": fsql, "target": target, "expected_ids": want, "got_ids": got});
                        let mut o = Outcome::fail("as a filter condition the tree keeps other rows than the documented operand tree", detail);
                        if let Some((id, what)) = attribute(&interp) {
                            o.verdict = Verdict::Known(id, what);
                        }
                        return o;
                    }
                }
            }
        }
    }
    let mut out = Outcome::pass();
    out.key = hash_of(&(&src, &target));
    out.nontrivial = case.expr.depth() >= 2 && nonnull && distinct_vals.len() >= 2;
    out.classes.push(format!("depth={}", case.expr.depth().min(6)));
    out.classes.push(format!("target={}", target));
    if amb > 0 {
        out.classes.push("has_ambiguous_rows".into());
    }
    if judged == 0 {
        return Outcome::skip("all rows ambiguous").class("all_rows_ambiguous");
    }
    out.sample = Some(json!({"prql": src, "sql": sql, "rows_judged": judged}));
    if let Some((i, expect, got)) = bad {
        let detail = json!({"source": src, "sql": sql, "target": target, "row": rows[i].iter().map(|v| v.show()).collect::<Vec<_>>(),
            "expected": expect.show(), "got": got.show()});
        out.verdict = match attribute(&interp) {
            Some((id, what)) => Verdict::Known(id, what),
            None => Verdict::Fail("value differs from the documented operand tree".into(), detail),
        };
    }
    out
}

pub fn replay_any(check_name: &str, case: &Value, known: &Known) -> Option<Outcome> {
    if check_name == "probe" {
        return crate::prop::c01::replay_any(check_name, case, known);
    }
    let c: Case = serde_json::from_value(case.clone()).ok()?;
    let db = value_db();
    Some(check(&c, known, &db))
}

pub fn run(ctx: &Ctx) -> i32 {
    ctx.run_replays(|c, case| replay_any(c, case, &ctx.known));
    let db = value_db();
    let tr = triples();
    ctx.set_extra("exhaustive_triples", json!(tr.len()));
    ctx.enumerate("triples", tr, |c| check(c, &ctx.known, &db));
    ctx.tape_search(
        "random-trees",
        ctx.n(30_000, 800_000),
        200,
        gen_case,
        |c| check(c, &ctx.known, &db),
    );
    ctx.tape_search("random-trees/shared-operand", ctx.n(15_000, 300_000), 200, gen_case_shared, |c| check(c, &ctx.known, &db));
    ctx.tape_search("random-trees/other-dialects-on-sqlite", ctx.n(30_000, 600_000), 200, gen_case_other_dialect, |c| check(c, &ctx.known, &db));
    ctx.finish(
        "(1) every type-correct (parent operator, child operator, left|right) combination of the 16 executable binary operators over column/literal leaves, plus each under a unary operator and inside a larger context, printed with the parentheses the documented precedence table requires and no others; (2) random typed trees to depth 5 over columns, literals and null with all binary and unary operators, case, in-range and ??. Each tree is evaluated by SQLite on the 675-row cross product of the value domain (NULL, -2, 0, 1, 3; 0.5, -1.5; true/false; 'a','b') and compared per row with the reference evaluation of the intended tree. non-trivial = depth >= 2, some non-NULL result, >= 2 distinct results; distinct = (source, target)",
        &[
            "`~=` (regex) is not executable on the bundled SQLite and is covered by C07 only",
            "under generic, trees containing `/` are not compared (generic emits the engine's division)",
            "rows where the reference is undefined (division by zero, overflow, 0 ** negative) are skipped row-wise",
        ],
    )
}
