//! C06 — refactorings PRQL defines as equivalent do not change results (metamorphic,
//! reference-free: both programs are executed on SQLite and compared).

use serde::{Deserialize, Serialize};
use serde_json::{json, Value};

use crate::known::Known;
use crate::model::ast::*;
use crate::model::exec;
use crate::model::gen::{Bias, GenCfg};
use crate::model::print;
use crate::model::val::{cell_key, Val};
use crate::prop::c01;
use crate::runner::{hash_of, Ctx, Outcome, Verdict};
use crate::tape::Tape;
use crate::util::{self, Compiled};

#[derive(Clone, Debug, Serialize, Deserialize)]
pub struct Case {
    pub base: c01::Case,
    pub rewritten: Prog,
    pub rewrites: Vec<String>,
}

fn no_window(e: &Expr) -> bool {
    !e.has_window()
}

/// R4: split a conjunctive filter / merge consecutive filters
fn r4(t: &mut Tape, steps: &mut Vec<Step>) -> bool {
    let sites: Vec<usize> = (0..steps.len())
        .filter(|i| match &steps[*i] {
            Step::Filter(Expr::Bin(BinOp::And, a, b)) => no_window(a) && no_window(b),
            Step::Filter(a) => {
                no_window(a) && matches!(steps.get(i + 1), Some(Step::Filter(b)) if no_window(b))
            }
            _ => false,
        })
        .collect();
    if sites.is_empty() {
        return false;
    }
    let i = sites[t.choose(sites.len())];
    match steps[i].clone() {
        Step::Filter(Expr::Bin(BinOp::And, a, b)) => {
            steps[i] = Step::Filter(*a);
            steps.insert(i + 1, Step::Filter(*b));
        }
        Step::Filter(a) => {
            if let Step::Filter(b) = steps[i + 1].clone() {
                steps[i] = Step::Filter(Expr::bin(BinOp::And, Expr::Paren(Box::new(a)), Expr::Paren(Box::new(b))));
                steps.remove(i + 1);
            }
        }
        _ => {}
    }
    true
}

/// R5: insert an identity transform
fn r5(t: &mut Tape, steps: &mut Vec<Step>) -> bool {
    let i = t.choose(steps.len() + 1);
    steps.insert(i, Step::Filter(Expr::Lit(Val::Bool(true))));
    true
}

fn repoint(e: &mut Expr, from: &[String], to: &str) {
    match e {
        Expr::Col(c) => {
            for f in from {
                let p1 = format!("{}.", print::ident(f));
                if c.text.starts_with(&p1) {
                    c.text = format!("{}.{}", print::ident(to), &c.text[p1.len()..]);
                }
            }
        }
        Expr::Bin(_, l, r) => {
            repoint(l, from, to);
            repoint(r, from, to);
        }
        Expr::Un(_, x) | Expr::Paren(x) | Expr::Agg(_, x) => repoint(x, from, to),
        Expr::Case(bs) => {
            for (c, v) in bs {
                repoint(c, from, to);
                repoint(v, from, to);
            }
        }
        Expr::In(x, _, _) => repoint(x, from, to),
        Expr::FStr(ps) => {
            for p in ps {
                if let FPart::Expr(x) = p {
                    repoint(x, from, to)
                }
            }
        }
        Expr::Call { args, named, .. } => {
            for a in args {
                repoint(a, from, to)
            }
            for (_, a) in named {
                repoint(a, from, to)
            }
        }
        Expr::Win(_, a) => {
            for x in a {
                repoint(x, from, to)
            }
        }
        _ => {}
    }
}

fn repoint_steps(steps: &mut [Step], from: &[String], to: &str) {
    for st in steps {
        match st {
            Step::Select(items) | Step::Derive(items) | Step::Aggregate(items) => {
                for it in items {
                    repoint(&mut it.expr, from, to)
                }
            }
            Step::SelectExcept(cols) => {
                for c in cols {
                    let mut e = Expr::Col(c.clone());
                    repoint(&mut e, from, to);
                    if let Expr::Col(c2) = e {
                        *c = c2;
                    }
                }
            }
            Step::Filter(e) => repoint(e, from, to),
            Step::Sort(keys) => {
                for k in keys {
                    repoint(&mut k.expr, from, to)
                }
            }
            Step::Join { cond, .. } => {
                if let JoinCond::Expr(e) = cond {
                    repoint(e, from, to)
                }
            }
            Step::Group { keys, inner } => {
                for c in keys {
                    let mut e = Expr::Col(c.clone());
                    repoint(&mut e, from, to);
                    if let Expr::Col(c2) = e {
                        *c = c2;
                    }
                }
                repoint_steps(inner, from, to);
            }
            Step::Window { inner, .. } => repoint_steps(inner, from, to),
            _ => {}
        }
    }
}

/// labels of the extraction rewrites, indexed by r1's code (0 plain; else 1 + 2*window-after + 4*aggregate-key)
const R1_LABELS: [&str; 8] = [
    "R1 let extraction",
    "R1 let extraction (sorted prefix)",
    "",
    "R1 let extraction (sorted prefix, window after)",
    "",
    "R1 let extraction (sorted prefix, computed key)",
    "",
    "R1 let extraction (sorted prefix, window after, computed key)",
];
const R2_LABELS: [&str; 8] = [
    "R2 into extraction",
    "R2 into extraction (sorted prefix)",
    "",
    "R2 into extraction (sorted prefix, window after)",
    "",
    "R2 into extraction (sorted prefix, computed key)",
    "",
    "R2 into extraction (sorted prefix, window after, computed key)",
];

/// true if some step evaluates a window function (whose implicit ORDER BY is the sort in effect)
fn steps_have_window(steps: &[Step]) -> bool {
    steps.iter().any(|s| match s {
        Step::Select(items) | Step::Derive(items) => items.iter().any(|i| i.expr.has_window()),
        Step::Filter(e) => e.has_window(),
        Step::Sort(keys) => keys.iter().any(|k| k.expr.has_window()),
        Step::Window { .. } => true,
        Step::Group { inner, .. } => inner.iter().any(|s| !matches!(s, Step::Aggregate(_))),
        _ => false,
    })
}

/// R1 / R2: name a prefix of the main pipeline with let (or into) and continue from that name.
/// Returns 0 = plain prefix, 1 = sorted prefix, 2 = sorted prefix and a window function after it
fn r1(t: &mut Tape, prog: &mut Prog, into: bool) -> Option<u8> {
    let n = prog.main.steps.len();
    if n == 0 {
        return None;
    }
    // cut after a step; only single-relation prefixes (no join before the cut) so that the
    // qualifier to re-point is unambiguous
    let mut k = 1 + t.choose(n);
    // often: cut between a sort and the take that follows it (the take then relies on the order
    // it inherits from the named prefix)
    let cuts: Vec<usize> = (1..n).filter(|i| matches!(prog.main.steps[i - 1], Step::Sort(_)) && matches!(prog.main.steps[*i], Step::Take { .. })).collect();
    if !cuts.is_empty() && t.chance(1, 2) {
        k = cuts[t.choose(cuts.len())];
    }
    if prog.main.steps[..k].iter().any(|s| matches!(s, Step::Join { .. })) {
        return None;
    }
    // a let-table that ends with a sort in effect hits finding C07-sorted-cte-order-by-scope
    // when it is joined afterwards: mostly avoided, sometimes exercised (and attributed)
    let sorted_prefix = prog.main.steps[..k].iter().any(|s| matches!(s, Step::Sort(_)))
        || matches!(&prog.main.source.kind, SrcKind::Let(_));
    if sorted_prefix && !t.chance(1, 2) {
        return None;
    }
    // a sort key of the prefix that is the result of an aggregation (finding
    // C06-sorted-let-computed-key-recomputed)
    let agg_key = {
        let mut aliases: Vec<String> = vec![];
        fn collect(steps: &[Step], out: &mut Vec<String>) {
            for s in steps {
                match s {
                    Step::Aggregate(items) => out.extend(items.iter().filter_map(|i| i.alias.clone())),
                    Step::Derive(items) | Step::Select(items) => {
                        out.extend(items.iter().filter(|i| !matches!(i.expr, Expr::Col(_))).filter_map(|i| i.alias.clone()))
                    }
                    Step::Window { inner, .. } => collect(inner, out),
                    Step::Group { inner, .. } => collect(inner, out),
                    _ => {}
                }
            }
        }
        collect(&prog.main.steps[..k], &mut aliases);
        let mut hit = false;
        if let Some(Step::Sort(keys)) = prog.main.steps[..k].iter().rev().find(|s| matches!(s, Step::Sort(_))) {
            for key in keys {
                key.expr.walk(&mut |x| {
                    if let Expr::Col(c) = x {
                        if aliases.iter().any(|a| c.text == *a || c.text.ends_with(&format!(".{a}"))) {
                            hit = true;
                        }
                    }
                });
            }
        }
        hit
    };
    let rest: Vec<Step> = prog.main.steps.split_off(k);
    let prefix = Pipeline {
        source: prog.main.source.clone(),
        steps: std::mem::take(&mut prog.main.steps),
    };
    let name = format!("zlet{}", prog.lets.len());
    // the relation name of the prefix: alias, table name or let name
    let old_rel = match (&prefix.source.alias, &prefix.source.kind) {
        (Some(a), _) => a.clone(),
        (None, SrcKind::Table(tn)) => tn.clone(),
        (None, SrcKind::Let(i)) => prog.lets[*i].name.clone(),
        _ => String::new(),
    };
    prog.lets.push(LetDef {
        name: name.clone(),
        pipe: prefix,
        into,
        module: None,
    });
    let idx = prog.lets.len() - 1;
    let mut rest = rest;
    let window_after = steps_have_window(&rest);
    repoint_steps(&mut rest, &[old_rel], &name);
    prog.main = Pipeline {
        source: Source {
            kind: SrcKind::Let(idx),
            alias: None,
        },
        steps: rest,
    };
    Some(if !sorted_prefix { 0 } else { 1 + 2 * (window_after as u8) + 4 * (agg_key as u8) })
}

/// R3: replace an expression by a call to a user function whose body is that expression
fn r3(t: &mut Tape, prog: &mut Prog) -> bool {
    // candidate: a non-windowed item of a top-level derive / select of the main pipeline
    let mut sites = vec![];
    for (si, st) in prog.main.steps.iter().enumerate() {
        if let Step::Derive(items) | Step::Select(items) = st {
            for (ii, it) in items.iter().enumerate() {
                let mut ok = !it.expr.has_window() && it.alias.is_some();
                it.expr.walk(&mut |x| {
                    if matches!(x, Expr::Call { .. } | Expr::FStr(_) | Expr::Param(..)) {
                        ok = false
                    }
                });
                if ok && it.expr.depth() >= 1 {
                    sites.push((si, ii));
                }
            }
        }
    }
    // ... or the condition of a top-level filter (item index usize::MAX)
    for (si, st) in prog.main.steps.iter().enumerate() {
        if let Step::Filter(e) = st {
            let mut ok = !e.has_window();
            e.walk(&mut |x| {
                if matches!(x, Expr::Call { .. } | Expr::FStr(_) | Expr::Param(..)) {
                    ok = false
                }
            });
            if ok && e.depth() >= 1 {
                sites.push((si, usize::MAX));
            }
        }
    }
    if sites.is_empty() {
        return false;
    }
    let (si, ii) = sites[t.choose(sites.len())];
    let expr = match &prog.main.steps[si] {
        Step::Derive(items) | Step::Select(items) => items[ii].expr.clone(),
        Step::Filter(e) => e.clone(),
        _ => return false,
    };
    // parameters = distinct column leaves
    let mut cols: Vec<ColRef> = vec![];
    expr.walk(&mut |x| {
        if let Expr::Col(c) = x {
            if !cols.iter().any(|d| d.idx == c.idx && d.text == c.text) {
                cols.push(c.clone());
            }
        }
    });
    if cols.len() > 3 {
        return false;
    }
    // integer literal leaves become named parameters with a default (up to three, declared in an
    // order that is not alphabetical): either the default is the literal and the call omits the
    // argument, or the default is another value and the call passes the literal
    const LIT_NAMES: [&str; 3] = ["zq", "zb", "zm"];
    let mut lits: Vec<i64> = vec![];
    if t.chance(2, 3) {
        expr.walk(&mut |x| {
            if let Expr::Lit(Val::Int(v)) = x {
                if !lits.contains(v) && lits.len() < 3 {
                    lits.push(*v);
                }
            }
        });
    }
    fn subst(e: &Expr, cols: &[ColRef], lits: &[i64]) -> Expr {
        match e {
            Expr::Col(c) => {
                let i = cols.iter().position(|d| d.idx == c.idx && d.text == c.text).unwrap();
                Expr::Param(i, format!("zp{i}"))
            }
            Expr::Lit(Val::Int(v)) if lits.contains(v) => {
                let k = lits.iter().position(|w| w == v).unwrap();
                Expr::Param(cols.len() + k, LIT_NAMES[k].to_string())
            }
            Expr::Bin(op, l, r) => Expr::Bin(*op, Box::new(subst(l, cols, lits)), Box::new(subst(r, cols, lits))),
            Expr::Un(op, x) => Expr::Un(*op, Box::new(subst(x, cols, lits))),
            Expr::Paren(x) => Expr::Paren(Box::new(subst(x, cols, lits))),
            Expr::Case(bs) => Expr::Case(bs.iter().map(|(c, v)| (subst(c, cols, lits), subst(v, cols, lits))).collect()),
            Expr::In(x, lo, hi) => Expr::In(Box::new(subst(x, cols, lits)), lo.clone(), hi.clone()),
            other => other.clone(),
        }
    }
    let body = subst(&expr, &cols, &lits);
    let fi = prog.funcs.len();
    let mut params: Vec<FuncParam> = (0..cols.len())
        .map(|i| FuncParam {
            name: format!("zp{i}"),
            default: None,
        })
        .collect();
    let mut lit_args: Vec<(String, Expr)> = vec![];
    for (k, v) in lits.iter().enumerate() {
        let passed = t.chance(2, 3);
        params.push(FuncParam {
            name: LIT_NAMES[k].to_string(),
            default: Some(Expr::Lit(Val::Int(if passed { *v + 7 } else { *v }))),
        });
        if passed {
            lit_args.push((LIT_NAMES[k].to_string(), Expr::Lit(Val::Int(*v))));
        }
    }
    // the call may write its named arguments in either order
    if t.chance(1, 2) {
        lit_args.reverse();
    }
    // optionally a named parameter with a default that the body ignores
    let named_default = t.chance(1, 3);
    if named_default {
        params.push(FuncParam {
            name: "zu".into(),
            default: Some(Expr::Lit(Val::Int(0))),
        });
    }
    let in_module = t.chance(1, 3);
    prog.funcs.push(FuncDef {
        name: format!("zfn{fi}"),
        params,
        body,
        module: if in_module { Some("zmod".into()) } else { None },
    });
    let args: Vec<Expr> = cols.iter().map(|c| Expr::Col(c.clone())).collect();
    let style = if !args.is_empty() && t.chance(1, 3) { CallStyle::Piped } else { CallStyle::Positional };
    let mut named = lit_args;
    if named_default && t.chance(1, 2) {
        named.push(("zu".to_string(), Expr::Lit(Val::Int(5))));
    }
    let call = Expr::Call {
        func: fi,
        args,
        named,
        style,
    };
    match &mut prog.main.steps[si] {
        Step::Derive(items) | Step::Select(items) => items[ii].expr = call,
        Step::Filter(e) => *e = call,
        _ => return false,
    }
    true
}

/// R6: move the declarations (functions and let-tables) into a module and refer to them by path
fn r6(t: &mut Tape, prog: &mut Prog) -> bool {
    let mut any = false;
    for f in prog.funcs.iter_mut() {
        if f.module.is_none() {
            f.module = Some("zmod".into());
            any = true;
        }
    }
    // let-tables too (all of them, so that their declaration order is kept inside the module);
    // half of the time the moved declarations keep referring to each other by their bare names
    if t.chance(1, 2) && prog.lets.iter().all(|l| l.module.is_none()) && !prog.lets.is_empty() {
        for l in prog.lets.iter_mut() {
            l.module = Some("zmod".into());
            l.into = false;
        }
        any = true;
    }
    if any && t.chance(1, 2) {
        prog.surface.bare_in_module = true;
    }
    any
}

pub fn gen_case(t: &mut Tape) -> Case {
    let mut cfg = GenCfg::general();
    cfg.bias = *t.pick(&[Bias::General, Bias::Frame, Bias::Sort, Bias::Window, Bias::Sort]);
    cfg.max_steps = 6;
    // a fifth of the bases begin with sort, take, windowed derive: whether the window sees the rows
    // before or after the take only shows against a rewrite that separates the two
    if t.chance(1, 5) {
        cfg.script = vec![3, 4, 8];
    }
    let mut base = c01::gen_case(t, cfg);
    base.target = "sqlite".into();
    let mut p = base.prog.clone();
    let mut rewrites = vec![];
    let n = 1 + t.choose(3);
    for _ in 0..n {
        let done = match t.choose(6) {
            0 => r4(t, &mut p.main.steps).then_some("R4 filter split/merge"),
            1 => r5(t, &mut p.main.steps).then_some("R5 identity filter"),
            2 => r1(t, &mut p, false).map(|s| R1_LABELS[s as usize]),
            3 => r1(t, &mut p, true).map(|s| R2_LABELS[s as usize]),
            4 => r3(t, &mut p).then_some("R3 function abstraction"),
            _ => r6(t, &mut p).then_some("R6 move into module"),
        };
        if let Some(d) = done {
            rewrites.push(d.to_string());
        }
    }
    Case {
        base,
        rewritten: p,
        rewrites,
    }
}

fn rows_key(cols: &[String], rows: &[Vec<Val>]) -> Vec<String> {
    // align by column name when names are unique, by position otherwise
    let mut order: Vec<usize> = (0..cols.len()).collect();
    let mut names = cols.to_vec();
    names.sort();
    names.dedup();
    if names.len() == cols.len() {
        order.sort_by(|a, b| cols[*a].cmp(&cols[*b]));
    }
    let mut v: Vec<String> = rows
        .iter()
        .map(|r| order.iter().map(|i| cell_key(&r[*i])).collect::<Vec<_>>().join("\u{1}"))
        .collect();
    v.sort();
    v
}

pub fn check(c: &Case, _known: &Known) -> Outcome {
    if c.rewrites.is_empty() {
        return Outcome::skip("no applicable rewrite").class("no_rewrite");
    }
    let src1 = print::program(&c.base.prog);
    let src2 = print::program(&c.rewritten);
    let d = util::dialect_by_name("sqlite");
    let sql1 = match util::compile(&src1, d) {
        Compiled::Sql(s) => s,
        _ => return Outcome::skip("base rejected").class("base_rejected"),
    };
    let strict = c.rewrites.iter().all(|r| r.starts_with("R4") || r.starts_with("R5") || r.starts_with("R6"));
    let sql2 = match util::compile(&src2, d) {
        Compiled::Sql(s) => s,
        Compiled::Err(r) => {
            if strict {
                return Outcome::fail(
                    "a filter split/merge, identity insertion or move into a module makes the program fail to compile",
                    json!({"base": src1, "rewritten": src2, "rewrites": c.rewrites, "error": r}),
                );
            }
            return Outcome::skip(&format!("rewrite_rejected: {}", util::reason_class(r.first().map(|s| s.as_str()).unwrap_or(""))))
                .class("rewrite_rejected");
        }
        Compiled::Panic(_) => return Outcome::skip("compiler_panic").class("compiler_panic"),
    };
    let (r1, r2) = match (exec::run(&c.base.db, &sql1), exec::run(&c.base.db, &sql2)) {
        (Ok(a), Ok(b)) => (a, b),
        (Err(_), _) => return Outcome::skip("base SQL fails (C07's subject)").class("base_sql_fails"),
        (Ok(_), Err(e)) if e.msg().contains("more than 100000 rows") => return Outcome::skip("engine_limit").class("engine_limit"),
        (Ok(_), Err(e)) => {
            let mut o = Outcome::fail(
                "the rewritten program's SQL fails on SQLite while the base program's runs",
                json!({"base": src1, "rewritten": src2, "rewrites": c.rewrites, "sql": sql2, "error": e.msg()}),
            );
            let extracted = c.rewrites.iter().any(|r| r.starts_with("R1") || r.starts_with("R2"));
            if e.msg().contains("syntax error") && sql2.contains(" OFFSET ") && _known.is_open("C07-offset-without-limit") {
                o.verdict = Verdict::Known("C07-offset-without-limit".into(), "an open-ended take separated from its bounding take".into());
            } else if c.rewrites.iter().any(|r| r.contains("computed key")) && e.msg().contains("no such column") && _known.is_open("C06-sorted-let-computed-key-recomputed") {
                o.verdict = Verdict::Known(
                    "C06-sorted-let-computed-key-recomputed".into(),
                    "let-extraction of a prefix sorted by a computed column".into(),
                );
            } else if extracted && src1.contains("append") && e.msg().contains("do not have the same number of result columns") && _known.is_open("C01-append-pruning") {
                // the extraction makes the top input of an append a let-table
                o.verdict = Verdict::Known("C01-append-pruning".into(), "let-extraction of the top input of an append".into());
            } else if c.rewrites.iter().any(|r| r.contains("window after"))
                && e.msg().contains("requires one ORDER BY")
                && _known.is_open("C06-let-sort-not-applied-to-windows")
            {
                // the window lost its ORDER BY: a RANGE frame with offsets is then not even valid
                o.verdict = Verdict::Known(
                    "C06-let-sort-not-applied-to-windows".into(),
                    "let-extraction of a sorted prefix followed by a range window".into(),
                );
            } else if extracted
                && e.msg().contains("no such column: c")
                && sql2.contains(" AS _expr_")
                && sql2.contains("SELECT *")
                && _known.is_open("C07-wildcard-let-derive-name")
            {
                // the named prefix has a wildcard frame and a derive: the derived column is called
                // _expr_N inside the CTE and by its alias outside
                o.verdict = Verdict::Known(
                    "C07-wildcard-let-derive-name".into(),
                    "let-extraction of a wildcard prefix that contains a derive".into(),
                );
            } else if c.rewrites.iter().any(|r| r.contains("(sorted prefix")) && e.msg().contains("no such column") && _known.is_open("C07-sorted-cte-order-by-scope") {
                o.verdict = Verdict::Known(
                    "C07-sorted-cte-order-by-scope".into(),
                    "let-extraction of a sorted prefix that is joined afterwards".into(),
                );
            }
            return o;
        }
    };
    let mut out = Outcome::pass();
    out.key = hash_of(&(&src1, &src2));
    out.nontrivial = sql1 != sql2 && !r1.rows.is_empty();
    for r in &c.rewrites {
        out.classes.push(r.split(' ').next().unwrap_or("?").to_string());
    }
    out.sample = Some(json!({"base": src1, "rewritten": src2, "rewrites": c.rewrites}));
    // a take without a total order may pick different rows in the two plans: judged only when
    // the base result is deterministic according to the reference interpreter
    let interp = crate::model::eval::Interp::new(&c.base.db, &c.base.prog);
    if interp.run().is_err() {
        return Outcome::skip("ambiguous base (take through ties etc.)").class("ambiguous");
    }
    if r1.cols.len() != r2.cols.len() && (sql1.contains('*') || sql2.contains('*')) && _known.is_open("C05-wildcard-helper-leak") {
        out.verdict = Verdict::Known("C05-wildcard-helper-leak".into(), "arity differs between the two plans of a wildcard program".into());
        return out;
    }
    let differs = r1.cols.len() != r2.cols.len() || rows_key(&r1.cols, &r1.rows) != rows_key(&r2.cols, &r2.rows);
    let extracted = c.rewrites.iter().any(|r| r.starts_with("R1") || r.starts_with("R2"));
    if differs && extracted && src1.contains("append") && _known.is_open("C01-append-pruning") {
        out.verdict = Verdict::Known("C01-append-pruning".into(), "let-extraction of the top input of an append".into());
        return out;
    }
    if differs && c.rewrites.iter().any(|r| r.contains("computed key")) && _known.is_open("C06-sorted-let-computed-key-recomputed") {
        out.verdict = Verdict::Known(
            "C06-sorted-let-computed-key-recomputed".into(),
            "let-extraction of a prefix sorted by a computed column".into(),
        );
        return out;
    }
    if differs && c.rewrites.iter().any(|r| r.contains("window after")) && _known.is_open("C06-let-sort-not-applied-to-windows") {
        out.verdict = Verdict::Known(
            "C06-let-sort-not-applied-to-windows".into(),
            "let-extraction of a sorted prefix followed by window functions".into(),
        );
        return out;
    }
    if differs {
        // rule out a defect of SQLite's planner: both statements again with its optional
        // optimisations switched off (see model/exec.rs)
        if let (Ok(u1), Ok(u2)) = (exec::run_unoptimized(&c.base.db, &sql1), exec::run_unoptimized(&c.base.db, &sql2)) {
            if u1.cols.len() == u2.cols.len() && rows_key(&u1.cols, &u1.rows) == rows_key(&u2.cols, &u2.rows) {
                return Outcome::skip("engine_planner_defect").class("engine_planner_defect");
            }
        }
        out.verdict = Verdict::Fail(
            "a refactoring PRQL defines as equivalent changes the result".into(),
            json!({"base": src1, "rewritten": src2, "rewrites": c.rewrites, "sql_base": sql1, "sql_rewritten": sql2,
                   "rows_base": r1.rows.iter().map(|r| r.iter().map(|v| v.show()).collect::<Vec<_>>()).collect::<Vec<_>>(),
                   "rows_rewritten": r2.rows.iter().map(|r| r.iter().map(|v| v.show()).collect::<Vec<_>>()).collect::<Vec<_>>()}),
        );
    }
    out
}

// ---------------------------------------------------------------------------------------
// Naming a prefix that ends in a take (all dialects, no execution): the row limits of the
// statement - LIMIT / OFFSET / FETCH / TOP with their numbers - must be the same whether the prefix
// is written inline, bound with `let`, or with `into`. Enumerated completely over prefix x
// continuation x dialect; continuations contain no take or sort of their own, so the limits of the
// prefix are all the limits there are.

#[derive(Clone, Debug, Serialize, Deserialize)]
pub struct TakePrefixCase {
    pub prefix: String,
    pub cont: String,
    pub dialect: String,
}

pub fn take_prefix_cases() -> Vec<TakePrefixCase> {
    let prefixes = [
        "from t2 | take 3..", "from t2 | take 2..5", "from t2 | take 4", "from t2 | select {id, a} | take 4..", "from t2 | select {id, a} | take 2..6",
        "from t2 | sort {id} | take 3..", "from t2 | sort {-a, id} | take 2..4", "from t2 | filter a > 1 | take 2..", "from t2 | derive {c = a + 1} | take 5..",
        "from t2 | select {id, a} | filter a > 0 | take 1..3",
    ];
    let conts = [
        "append t1", "append (from t1 | select {id, a})", "remove t1", "intersect (from t1 | select {id, a})", "filter a > 2", "derive {z = id + 1}",
        "join side:left r = (from t1 | select {k = id}) (id == r.k)", "group {a} (aggregate {n = count this})", "select {id} | loop (filter id < 4 | select {id = id + 1})",
        "select {a}", "aggregate {m = max id}",
    ];
    let mut v = vec![];
    for p in prefixes {
        for c in conts {
            for d in ["generic", "postgres", "duckdb", "mssql", "mysql", "clickhouse", "bigquery", "sqlite"] {
                v.push(TakePrefixCase { prefix: p.into(), cont: c.into(), dialect: d.into() });
            }
        }
    }
    v
}

fn row_limits(sql: &str) -> Vec<String> {
    static RE: std::sync::OnceLock<regex::Regex> = std::sync::OnceLock::new();
    let re = RE.get_or_init(|| regex::Regex::new(r"LIMIT \d+|OFFSET \d+|FETCH (?:FIRST|NEXT) \d+|TOP \(?\d+\)?").unwrap());
    let mut v: Vec<String> = re.find_iter(sql).map(|m| m.as_str().to_string()).collect();
    v.sort();
    v
}

pub fn check_take_prefix(c: &TakePrefixCase, _known: &Known) -> Outcome {
    let d = util::dialect_by_name(&c.dialect);
    let spellings = [
        ("inline", format!("{} | {}\n", c.prefix, c.cont)),
        ("let", format!("let pre = ({})\nfrom pre | {}\n", c.prefix, c.cont)),
        ("into", format!("{} | into pre\nfrom pre | {}\n", c.prefix, c.cont)),
    ];
    let mut out = Outcome::pass();
    out.key = hash_of(&(&c.prefix, &c.cont, &c.dialect));
    let mut seen: Vec<(&str, String, Vec<String>)> = vec![];
    for (name, src) in &spellings {
        match util::compile(src, d) {
            Compiled::Sql(sql) => {
                let l = row_limits(&sql);
                seen.push((name, sql, l));
            }
            Compiled::Err(_) => {}
            Compiled::Panic(_) => return Outcome::skip("compiler_panic").class("compiler_panic"),
        }
    }
    if seen.len() < 2 {
        return Outcome::skip("fewer than two spellings compile").class("rejected_by_compiler");
    }
    out.nontrivial = true;
    out.classes.push(format!("take_prefix:{}", c.dialect));
    for w in seen.windows(2) {
        if w[0].2 != w[1].2 {
            return Outcome::fail(
                "naming a prefix with let / into changes the row limits of the statement",
                json!({"prefix": c.prefix, "continuation": c.cont, "dialect": c.dialect,
                       w[0].0: {"limits": w[0].2, "sql": w[0].1}, w[1].0: {"limits": w[1].2, "sql": w[1].1}}),
            );
        }
    }
    out.sample = Some(json!({"prefix": c.prefix, "continuation": c.cont, "dialect": c.dialect, "limits": seen[0].2}));
    out
}

pub fn replay_any(check_name: &str, case: &Value, known: &Known) -> Option<Outcome> {
    if check_name == "take-prefix-naming" {
        let c: TakePrefixCase = serde_json::from_value(case.clone()).ok()?;
        return Some(check_take_prefix(&c, known));
    }
    let c: Case = serde_json::from_value(case.clone()).ok()?;
    Some(check(&c, known))
}

pub fn run(ctx: &Ctx) -> i32 {
    ctx.run_replays(|c, case| replay_any(c, case, &ctx.known));
    ctx.enumerate("take-prefix-naming", take_prefix_cases(), |c| check_take_prefix(c, &ctx.known));
    ctx.tape_search("rewrites", ctx.n(30_000, 1_000_000), 450, gen_case, |c| check(c, &ctx.known));
    ctx.finish(
        "a generated base program P (default generator: recorded findings excluded by construction) and 1-3 rewrites at tape-chosen applicable sites: R1 let-extraction of a pipeline prefix (qualified references re-pointed), R2 the same with `into`, R3 abstraction of a derive/select expression into a user function over its column leaves (positional or piped argument, optional named parameter with default, optionally inside a module), R4 conjunctive filter split / merge of consecutive filters (never across window functions), R5 insertion of `filter true`, R6 moving the functions into a module and calling them by path. Oracle: both programs compile (required for R4/R5; other rewrites may leave the language's scoping rules and are then counted as rewrite_rejected), both run on SQLite, and the results are equal as multisets (columns aligned by name). non-trivial = the two SQL texts differ and the result is non-empty; distinct = (base, rewritten)",
        &["cases whose base result is ambiguous (take through ties, row_number over ties ...) are not judged", "sequence equality under a total order is C03's subject; here results are compared as multisets"],
    )
}
