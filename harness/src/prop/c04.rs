//! C04 — window functions see exactly the documented segment and keep row count.

use serde_json::Value;

use crate::known::Known;
use crate::model::gen::{Bias, GenCfg};
use crate::prop::c01::{self, Case};
use crate::runner::{Ctx, Outcome, Verdict};

fn cfg() -> GenCfg {
    let mut c = GenCfg::general();
    c.bias = Bias::Window;
    c.max_steps = 6;
    c.allow_append = false;
    c
}

pub fn check(c: &Case, known: &Known, hazard: bool) -> Outcome {
    let (mut out, det) = c01::judge(c, known);
    if hazard {
        if let Verdict::Fail(_, detail) = &out.verdict {
            let failure = detail.get("error").and_then(|e| e.as_str()).unwrap_or("").to_string();
            if let Some((id, what)) = c01::attribute_with(&c.flags, known, &failure) {
                out.verdict = Verdict::Known(id, what);
            }
        }
        out.nontrivial = false;
        return out;
    }
    let Some(det) = det else { return out };
    let up = det.sql.to_uppercase();
    let over = up.matches(" OVER (").count();
    // a windowed value that differs between rows: some result column is not constant
    let varying = det.res.rows.len() >= 2
        && (0..det.res.cols.len()).any(|i| {
            det.res.rows.iter().any(|r| crate::model::val::cell_key(&r[i]) != crate::model::val::cell_key(&det.res.rows[0][i]))
        });
    out.nontrivial = over > 0 && varying;
    if up.contains("ROWS BETWEEN") {
        out.classes.push("rows_frame".into());
    }
    if up.contains("RANGE BETWEEN") {
        out.classes.push("range_frame".into());
    }
    if up.contains("PARTITION BY") {
        out.classes.push("partitioned".into());
    }
    for f in ["LAG(", "LEAD(", "RANK()", "DENSE_RANK()", "ROW_NUMBER()", "FIRST_VALUE(", "SUM(", "AVG(", "MIN(", "MAX(", "COUNT("] {
        if up.contains(&format!("{f}")) && over > 0 {
            out.classes.push(format!("fn:{}", f.trim_end_matches('(')));
        }
    }
    if up.contains("WHERE _EXPR") || (up.contains(" OVER (") && up.contains("WHERE")) {
        out.classes.push("window_and_where".into());
    }
    out
}

// ---------------------------------------------------------------------------------------
// Window clause by function and dialect (all 12 dialects, no execution). SQLite decides what
// `sum` / `average` see; the aggregation functions that accept a frame (sum, min, max, average,
// count, stddev) must get the *same* OVER clause as `sum` in the same place, under every dialect:
// partition, order and frame come from the enclosing group / sort / window, not from the function.

#[derive(Clone, Debug, serde::Serialize, serde::Deserialize)]
pub struct OverCase {
    pub source: String,
    pub from_fn: String,
    pub to_fn: String,
}

const FRAME_FNS: &[&str] = &["sum", "min", "max", "average", "count", "stddev"];

pub fn gen_over_case(t: &mut crate::tape::Tape) -> OverCase {
    let mut cf = cfg();
    cf.hazards = vec!["int_divi"];
    let c = c01::gen_case(t, cf);
    let source = crate::model::print::program(&c.prog);
    let present: Vec<&str> = FRAME_FNS.iter().copied().filter(|f| regex::Regex::new(&format!(r"\b{f}\b")).unwrap().is_match(&source)).collect();
    let from_fn = if present.is_empty() { "sum".to_string() } else { present[t.choose(present.len())].to_string() };
    let others: Vec<&str> = FRAME_FNS.iter().copied().filter(|f| *f != from_fn).collect();
    let to_fn = others[t.choose(others.len())].to_string();
    OverCase { source, from_fn, to_fn }
}

/// the `OVER (...)` clauses of a statement, in order
fn over_clauses(sql: &str) -> Vec<String> {
    let mut out = vec![];
    let b = sql.as_bytes();
    let mut i = 0;
    while let Some(p) = sql[i..].find(" OVER (") {
        let start = i + p + 6;
        let mut depth = 0i32;
        let mut j = start;
        while j < b.len() {
            match b[j] {
                b'(' => depth += 1,
                b')' => {
                    depth -= 1;
                    if depth == 0 {
                        break;
                    }
                }
                _ => {}
            }
            j += 1;
        }
        out.push(sql[start..=j.min(b.len() - 1)].to_string());
        i = j.min(b.len() - 1);
    }
    out
}

/// what a window clause says, independent of how its operands are spelled (a computed key may be
/// inlined or carried as a helper column): number of partition keys, direction of each order key,
/// frame text
fn over_sig(clause: &str) -> String {
    let inner = if clause.len() >= 2 { &clause[1..clause.len() - 1] } else { clause };
    let (pre, frame) = match inner.find("ROWS BETWEEN").or_else(|| inner.find("RANGE BETWEEN")) {
        Some(i) => (&inner[..i], inner[i..].trim()),
        None => (inner, ""),
    };
    let (part, order) = match pre.find("ORDER BY") {
        Some(i) => (&pre[..i], pre[i + 8..].trim()),
        None => (pre, ""),
    };
    fn pieces(s: &str) -> Vec<String> {
        let (mut depth, mut cur, mut out) = (0i32, String::new(), vec![]);
        for ch in s.chars() {
            match ch {
                '(' => depth += 1,
                ')' => depth -= 1,
                ',' if depth == 0 => {
                    out.push(cur.trim().to_string());
                    cur.clear();
                    continue;
                }
                _ => {}
            }
            cur.push(ch);
        }
        if !cur.trim().is_empty() {
            out.push(cur.trim().to_string());
        }
        out
    }
    let nparts = part.find("PARTITION BY").map(|i| pieces(&part[i + 12..]).len()).unwrap_or(0);
    let dirs: String = pieces(order).iter().map(|k| if k.ends_with(" DESC") { 'D' } else { 'A' }).collect();
    format!("P{nparts} O[{dirs}] F[{frame}]")
}

pub fn check_over(c: &OverCase, _known: &Known) -> Outcome {
    use crate::util::{self, Compiled, DIALECTS};
    let re = regex::Regex::new(&format!(r"\b{}\b", c.from_fn)).unwrap();
    if !re.is_match(&c.source) {
        return Outcome::skip("no_frame_function").class("no_frame_function");
    }
    let swapped = re.replace_all(&c.source, c.to_fn.as_str()).into_owned();
    let mut out = Outcome::pass();
    out.key = crate::runner::hash_of(&(&c.source, &c.to_fn));
    let mut compared = 0;
    for (dn, d) in DIALECTS {
        let (a, b) = (util::compile(&c.source, Some(*d)), util::compile(&swapped, Some(*d)));
        let (Compiled::Sql(a), Compiled::Sql(b)) = (a, b) else { continue };
        let sigs = |sql: &str| -> Vec<String> {
            let mut v: Vec<String> = over_clauses(sql).iter().map(|o| over_sig(o)).collect();
            v.sort();
            v
        };
        let (oa, ob) = (sigs(&a), sigs(&b));
        // (the function occurs in several contexts and the statements differ in shape: not comparable)
        if oa.is_empty() || oa.len() != ob.len() {
            continue;
        }
        compared += 1;
        if oa != ob && util::genuinely_different(&|| format!("{:?}", sigs(&match util::compile(&c.source, Some(*d)) { Compiled::Sql(s) => s, _ => String::new() })), &|| format!("{:?}", sigs(&match util::compile(&swapped, Some(*d)) { Compiled::Sql(s) => s, _ => String::new() }))) {
            return Outcome::fail(
                &format!("under {dn} the window clause depends on the aggregation function ({} vs {})", c.from_fn, c.to_fn),
                serde_json::json!({"source": c.source, "swapped": swapped, "dialect": dn, "over_clauses": oa, "over_clauses_swapped": ob, "sql": a, "sql_swapped": b}),
            );
        }
        if oa.iter().any(|o| o.contains("ROWS BETWEEN") || o.contains("RANGE BETWEEN")) {
            out.nontrivial = true;
        }
    }
    if compared == 0 {
        return Outcome::skip("no_over_clause").class("no_over_clause");
    }
    out.classes.push(format!("{}->{}", c.from_fn, c.to_fn));
    out.sample = Some(serde_json::json!({"prql": c.source, "swap": format!("{} -> {}", c.from_fn, c.to_fn)}));
    out
}

pub fn replay_any(check_name: &str, case: &Value, known: &Known) -> Option<Outcome> {
    if check_name == "over-clause-by-function" {
        let c: OverCase = serde_json::from_value(case.clone()).ok()?;
        return Some(check_over(&c, known));
    }
    if check_name == "probe" {
        return c01::replay_any(check_name, case, known);
    }
    let c: Case = serde_json::from_value(case.clone()).ok()?;
    Some(check(&c, known, check_name.starts_with("hazard/")))
}

pub fn run(ctx: &Ctx) -> i32 {
    ctx.run_replays(|c, case| replay_any(c, case, &ctx.known));
    let cf = cfg();
    ctx.tape_search(
        "windows",
        ctx.n(50_000, 1_500_000),
        450,
        |t| c01::gen_case(t, cf.clone()),
        |c| check(c, &ctx.known, false),
    );
    // (24+ compilations per evaluation: a smaller shrink budget)
    let shrink = ctx.shrink_iters.swap(200, std::sync::atomic::Ordering::Relaxed);
    ctx.tape_search("over-clause-by-function", ctx.n(2_500, 60_000), 450, gen_over_case, |c| check_over(c, &ctx.known));
    ctx.shrink_iters.store(shrink, std::sync::atomic::Ordering::Relaxed);
    for h in ["unframed_last", "shadow", "win_over_win"] {
        let mut cf = cfg();
        cf.hazards = vec![h];
        ctx.tape_search(
            &format!("hazard/{h}"),
            ctx.n(800, 30_000),
            450,
            |t| c01::gen_case(t, cf.clone()),
            |c| check(c, &ctx.known, true),
        );
    }
    ctx.finish(
        "window-biased abstract programs: group? (sort? (window rows/range/rolling/expanding? (derive {sum,min,max,average,count,lag,lead,first,rank,rank_dense,row_number ...}))), windowed values in derive / select / filter, before and after splits, partition keys with NULLs; executed on SQLite and compared row by row with a reference window evaluation (whole partition when no window is given, inclusive rows/range bounds, rolling:n = rows:(1-n)..0, expanding = rows:..0), which also fixes the row count. For the 11 dialects that are not executed: the OVER clauses of the statement must not change when one frame-accepting aggregation function (sum, min, max, average, count, stddev) is replaced by another (metamorphic; 12 dialects). non-trivial = the SQL has an OVER clause and some result column varies between rows; distinct = hash of (source, target, instance)",
        &[
            "rows frames, row_number, lag, lead, first over a non-total order are counted ambiguous",
            "a windowed sum over no non-null value may be 0 or NULL (the compiler deliberately omits COALESCE for window sums, #3587)",
        ],
    )
}
