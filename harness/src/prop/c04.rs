//! C04 — window functions see exactly the documented segment and keep row count.

use serde_json::Value;

use crate::known::Known;
use crate::model::gen::{Bias, GenCfg};
use crate::prop::c01::{self, Case};
use crate::runner::{Ctx, Outcome, Verdict};

fn cfg() -> GenCfg {
    let mut c = GenCfg::general();
    c.bias = Bias::Window;
    c.max_steps = 6;
    c.allow_append = false;
    c
}

pub fn check(c: &Case, known: &Known, hazard: bool) -> Outcome {
    let (mut out, det) = c01::judge(c, known);
    if hazard {
        if let Verdict::Fail(_, detail) = &out.verdict {
            let failure = detail.get("error").and_then(|e| e.as_str()).unwrap_or("").to_string();
            if let Some((id, what)) = c01::attribute_with(&c.flags, known, &failure) {
                out.verdict = Verdict::Known(id, what);
            }
        }
        out.nontrivial = false;
        return out;
    }
    let Some(det) = det else { return out };
    let up = det.sql.to_uppercase();
    let over = up.matches(" OVER (").count();
    // a windowed value that differs between rows: some result column is not constant
    let varying = det.res.rows.len() >= 2
        && (0..det.res.cols.len()).any(|i| {
            det.res.rows.iter().any(|r| crate::model::val::cell_key(&r[i]) != crate::model::val::cell_key(&det.res.rows[0][i]))
        });
    out.nontrivial = over > 0 && varying;
    if up.contains("ROWS BETWEEN") {
        out.classes.push("rows_frame".into());
    }
    if up.contains("RANGE BETWEEN") {
        out.classes.push("range_frame".into());
    }
    if up.contains("PARTITION BY") {
        out.classes.push("partitioned".into());
    }
    for f in ["LAG(", "LEAD(", "RANK()", "DENSE_RANK()", "ROW_NUMBER()", "FIRST_VALUE(", "SUM(", "AVG(", "MIN(", "MAX(", "COUNT("] {
        if up.contains(&format!("{f}")) && over > 0 {
            out.classes.push(format!("fn:{}", f.trim_end_matches('(')));
        }
    }
    if up.contains("WHERE _EXPR") || (up.contains(" OVER (") && up.contains("WHERE")) {
        out.classes.push("window_and_where".into());
    }
    out
}

pub fn replay_any(check_name: &str, case: &Value, known: &Known) -> Option<Outcome> {
    if check_name == "probe" {
        return c01::replay_any(check_name, case, known);
    }
    let c: Case = serde_json::from_value(case.clone()).ok()?;
    Some(check(&c, known, check_name.starts_with("hazard/")))
}

pub fn run(ctx: &Ctx) -> i32 {
    ctx.run_replays(|c, case| replay_any(c, case, &ctx.known));
    let cf = cfg();
    ctx.tape_search(
        "windows",
        ctx.n(50_000, 1_500_000),
        450,
        |t| c01::gen_case(t, cf.clone()),
        |c| check(c, &ctx.known, false),
    );
    for h in ["unframed_last", "shadow", "win_over_win"] {
        let mut cf = cfg();
        cf.hazards = vec![h];
        ctx.tape_search(
            &format!("hazard/{h}"),
            ctx.n(800, 30_000),
            450,
            |t| c01::gen_case(t, cf.clone()),
            |c| check(c, &ctx.known, true),
        );
    }
    ctx.finish(
        "window-biased abstract programs: group? (sort? (window rows/range/rolling/expanding? (derive {sum,min,max,average,count,lag,lead,first,rank,rank_dense,row_number ...}))), windowed values in derive / select / filter, before and after splits, partition keys with NULLs; executed on SQLite and compared row by row with a reference window evaluation (whole partition when no window is given, inclusive rows/range bounds, rolling:n = rows:(1-n)..0, expanding = rows:..0), which also fixes the row count. non-trivial = the SQL has an OVER clause and some result column varies between rows; distinct = hash of (source, target, instance)",
        &[
            "rows frames, row_number, lag, lead, first over a non-total order are counted ambiguous",
            "a windowed sum over no non-null value may be 0 or NULL (the compiler deliberately omits COALESCE for window sums, #3587)",
        ],
    )
}
