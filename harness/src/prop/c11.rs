//! C11 — compilation is a pure function of source tree and options.
//!
//! Histories of calls (compile / pl_to_rq / pl_to_prql, succeeding, failing and panicking) are
//! dealt onto several threads; every output must equal the canonical output of that call, which
//! is obtained from fresh child processes (first call in the process, run twice).

use std::collections::BTreeMap;
use std::path::PathBuf;

use serde::{Deserialize, Serialize};
use serde_json::{json, Value};

use crate::known::Known;
use crate::model::gen::{Bias, GenCfg};
use crate::model::print;
use crate::prop::{c01, c16};
use crate::runner::{catch, hash_of, Ctx, Outcome, Verdict};
use crate::tape::Tape;
use crate::util::DIALECTS;

pub const F_ORDER: &str = "C11-column-order-hash-dependent";
pub const F_ERRTEXT: &str = "C11-error-text-hash-dependent";

#[derive(Clone, Debug, Serialize, Deserialize, PartialEq, Eq, PartialOrd, Ord, Hash)]
pub struct Call {
    pub src: usize,
    /// 0 compile, 1 RQ as JSON, 2 formatted source, 3 multi-file project compile (src = file order permutation)
    pub kind: u8,
    pub dialect: usize,
}

#[derive(Clone, Debug, Serialize, Deserialize)]
pub struct Case {
    pub sources: Vec<String>,
    pub calls: Vec<Call>,
    pub threads: usize,
    /// multi-file project: (path, content); the root file starts with an upper-case letter
    #[serde(default)]
    pub project: Vec<(String, String)>,
}

const RISKY: &[&str] = &[
    // two unknown named arguments: which one is reported?
    "from t1 | select {id, a} | take zzq:1 zzp:2 3\n",
    "let f = x y:1 -> x + y\nfrom t1 | select {r = (f zzb:1 zza:2 id)}\n",
    // unknown name with several inferred columns in the hint
    "from t1 | derive {x = t1.a + t1.b + t1.c} | select {x, t1.b, t1.a} | filter zzz > 1\n",
    // sorts crossing several CTEs, a let-table used three times
    "let l = (from t1 | select {id, a, b} | sort {a, id})\nfrom l | join r1 = l (l.id == r1.id) | join r2 = l (l.id == r2.id) | select {l.id, x = r1.a, y = r2.b} | take 3\n",
    // the shape whose result column order is known to vary
    "from t2 | select {id, s} | select {c0 = s ?? \"z\", id} | join r0 = (from t2 | select {c1 = id == 0}) (true) | group {id} (sort {c0} | take 1)\n",
    "from t1 | select {id, a, b} | remove (from t2 | select {id, a, b}) | intersect (from t3 | select {id, a, b})\n",
    // inline data whose rows have different key sets / orders (keys are held in hash maps)
    "from_text format:json '[{\"k\": 1, \"a\": 2}, {\"a\": 3, \"k\": 4, \"z1\": 5, \"z2\": 6, \"z3\": 7}]' | sort {k}\n",
    "from_text format:json '{\"columns\": [\"k\", \"a\", \"b\"], \"data\": [[1, 2, 3], [4, 5, 6]]}' | select {b, k}\n",
    "from_text 'k,a,b\n1,2,3\n4,5,6' | derive {c = a + b}\n",
    "from [{k = 1, a = 2, b = 3}, {k = 4, a = 5, b = 6}] | select {b, a, k}\n",
    // identifiers that only some dialects reserve (the decision to quote depends on the target)
    "from invoice | select {tag, identity, system, snapshot, oid, delta, `user`, time} | sort {tag} | take 5\n",
    "from backup | join offline (==oid) | select {backup.encode, offline.wallet, c = credentials ?? explicit}\n",
    // sources known to panic in different stages
    "let f = x -> internal std.math\nfrom t1 | select {y = f a}\n",
    "from t1 | select {id, a} | derive {c2 = id} | sort {id} | select {c5 = c2}\n",
    "from t1 | select {id, s} | derive {id = id + 1} | append (from t2 | select {c4 = 0, c7 = id})\n",
    // a source known to panic (multi-byte text before a parse error)
    "from t | select {a = \"é\"} | derive {zz = 1 +\n",
];

pub fn gen_case(t: &mut Tape) -> Case {
    let mut sources = vec![];
    let n = 2 + t.choose(3);
    for _ in 0..n {
        if t.chance(1, 3) {
            sources.push(t.pick(RISKY).to_string());
        } else if t.chance(1, 4) {
            // a token-mutated program: often fails, sometimes panics, in varying stages
            let c = crate::prop::c12::gen_source_case(t);
            if c.input.contains("import") {
                // `import x` recursion overflows the stack (finding C12-abort-source): keep it out of
                // in-process histories
                sources.push(RISKY[0].to_string());
            } else {
                sources.push(c.input);
            }
        } else {
            let mut cfg = GenCfg::general();
            cfg.bias = *t.pick(&[Bias::General, Bias::Frame, Bias::Sort, Bias::Window]);
            cfg.hazards = c16::ALL_HAZARDS.to_vec();
            let c = c01::gen_case(t, cfg);
            let mut s = print::program(&c.prog);
            if t.chance(1, 6) {
                s = s.replacen("select {", "select {zzz_unknown, ", 1);
            }
            sources.push(s);
        }
    }
    let project = if t.chance(1, 3) {
        let zzz = if t.chance(1, 4) { " | filter m1.zzz > 1" } else { "" };
        match t.choose(5) {
            // independent modules
            0 => vec![
                ("Project.prql".to_string(), format!("from m1.tbl | join m2.tbl (==id) | derive {{r = m1.f1 a}} | select {{m1.tbl.id, r, b}}{zzz}\n")),
                ("m1.prql".to_string(), "let f1 = x -> x + 1\nlet tbl = (from t1 | select {id, a})\n".to_string()),
                ("m2.prql".to_string(), "let tbl = (from t2 | select {id, b})\n".to_string()),
                ("m3.prql".to_string(), "let unused = (from t3)\n".to_string()),
            ],
            // a module that refers to a module sorted before it (m2 -> m1, m3 -> m2)
            1 => vec![
                ("Project.prql".to_string(), format!("from m3.top | derive {{r = m1.f1 a}} | select {{id, r, b}}{zzz}\n")),
                ("m1.prql".to_string(), "let f1 = x -> x + 1\nlet tbl = (from t1 | select {id, a})\n".to_string()),
                ("m2.prql".to_string(), "let both = (from m1.tbl | join r = (from t2 | select {id, b}) (==id) | select {m1.tbl.id, a, b})\n".to_string()),
                ("m3.prql".to_string(), "let top = (from m2.both | sort {id} | take 5)\n".to_string()),
            ],
            // a module that refers to a module sorted after it (must fail the same way in every order)
            2 => vec![
                ("Project.prql".to_string(), "from m1.both | select {id, a, b}\n".to_string()),
                ("m1.prql".to_string(), "let both = (from m2.tbl | join r = (from t1 | select {id, a}) (==id) | select {m2.tbl.id, a, b})\n".to_string()),
                ("m2.prql".to_string(), "let tbl = (from t2 | select {id, b})\n".to_string()),
            ],
            // syntax errors in two (or three) files: the list of errors has one order
            3 => vec![
                ("Project.prql".to_string(), "from m1.tbl | join m2.tbl (==id)\n".to_string()),
                ("m1.prql".to_string(), "let tbl = (from t1 | select {id, a = })\n".to_string()),
                ("m2.prql".to_string(), "let tbl = (from t2 | select {id, b)\n".to_string()),
                ("a0.prql".to_string(), "let f = x -> x +\n".to_string()),
            ],
            // file names whose order differs between byte order and a case-insensitive one; nested module
            _ => vec![
                ("Project.prql".to_string(), format!("from b.tbl | join Zed.tbl (==id) | join a_b.tbl (==id) | select {{b.tbl.id, a, b, c = Zed.tbl.k}}{}\n", if zzz.is_empty() { "" } else { " | filter b.zzz > 1" })),
                ("b.prql".to_string(), "let tbl = (from t1 | select {id, a})\n".to_string()),
                ("a_b.prql".to_string(), "let tbl = (from b.tbl | join r = (from t2 | select {id, b}) (==id) | select {tbl.id, b})\n".to_string()),
                ("Zed.prql".to_string(), "let tbl = (from t3 | select {id, k})\n".to_string()),
            ],
        }
    } else {
        vec![]
    };
    let ncalls = 3 + t.choose(10);
    let mut calls = vec![];
    for _ in 0..ncalls {
        let kind = if !project.is_empty() && t.chance(1, 4) { 3 } else { t.weighted(&[6, 2, 2]) as u8 };
        calls.push(Call {
            src: if kind == 3 { t.choose(24) } else { t.choose(sources.len()) },
            kind,
            dialect: if t.chance(1, 2) { 0 } else { t.choose(DIALECTS.len()) },
        });
    }
    // dialect alternation: one source compiled under two targets in turn on few threads, so that
    // anything remembered from a compilation for another target shows. The source uses identifiers
    // whose treatment differs between dialects.
    let mut threads = 1 + t.choose(8);
    if t.chance(1, 4) {
        sources.push(t.pick(DIALECT_SENSITIVE).to_string());
        let si = sources.len() - 1;
        let d1 = t.choose(DIALECTS.len());
        let d2 = if t.chance(2, 3) { DIALECTS.iter().position(|d| d.0 == "redshift").unwrap_or(0) } else { t.choose(DIALECTS.len()) };
        for k in 0..(4 + t.choose(4)) {
            calls.push(Call { src: si, kind: 0, dialect: if k % 2 == 0 { d1 } else { d2 } });
        }
        threads = 1 + t.choose(2);
    }
    Case {
        sources,
        calls,
        threads,
        project,
    }
}

/// programs whose SQL differs between dialects in identifier quoting, functions and clauses
const DIALECT_SENSITIVE: &[&str] = &[
    "from invoice | select {tag, identity, system, snapshot, oid, delta, `user`, time} | sort {tag} | take 5\n",
    "from backup | join offline (==oid) | select {backup.encode, offline.wallet, c = credentials ?? explicit}\n",
    "from t1 | select {`order`, `Mixed Case`, `é`, key, value, percent = a / b} | take 2..4 | filter key != null\n",
    "from t1 | derive {d = a // b, m = a % b, s = f\"{u}-{s}\", r = (s ~= \"x\")} | group {k} (take 1)\n",
    "from t1 | select {timestamp, time, date, interval, text, identity} | filter timestamp > @2020-01-01 | take 3\n",
];

fn perm(n: usize, mut k: usize) -> Vec<usize> {
    let mut items: Vec<usize> = (0..n).collect();
    let mut out = vec![];
    for i in (1..=n).rev() {
        let j = k % i;
        k /= i;
        out.push(items.remove(j));
    }
    out
}

/// one call; never unwinds
pub fn run_call(case: &Case, c: &Call) -> String {
    let o = crate::util::opts(Some(DIALECTS[c.dialect % DIALECTS.len()].1));
    let r = catch(|| -> String {
        match c.kind {
            0 => match prqlc::compile(&case.sources[c.src], &o) {
                Ok(s) => format!("OK {s}"),
                Err(e) => format!("ERR {}", e.to_json()),
            },
            1 => match prqlc::prql_to_pl(&case.sources[c.src]).and_then(prqlc::pl_to_rq) {
                Ok(rq) => format!("OK {}", prqlc::json::from_rq(&rq).unwrap_or_default()),
                Err(e) => format!("ERR {}", e.to_json()),
            },
            2 => match prqlc::prql_to_pl(&case.sources[c.src]).and_then(|pl| prqlc::pl_to_prql(&pl)) {
                Ok(s) => format!("OK {s}"),
                Err(e) => format!("ERR {}", e.to_json()),
            },
            _ => {
                // the same project, files enumerated in a different order
                let p = perm(case.project.len(), c.src);
                let files: Vec<(PathBuf, String)> = p
                    .iter()
                    .map(|i| (PathBuf::from(&case.project[*i].0), case.project[*i].1.clone()))
                    .collect();
                let tree = prqlc::SourceTree::new(files, None);
                let r = prqlc::prql_to_pl_tree(&tree)
                    .and_then(|pl| prqlc::pl_to_rq_tree(pl, &[], &[]))
                    .and_then(|rq| prqlc::rq_to_sql(rq, &o));
                match r {
                    Ok(s) => format!("OK {s}"),
                    // source ids depend on the enumeration order by construction; compare the
                    // user-visible parts
                    Err(e) => format!(
                        "ERR {}",
                        e.inner
                            .iter()
                            .map(|m| format!("{} | {:?} | {:?}", m.reason, m.hints, m.display))
                            .collect::<Vec<_>>()
                            .join(" ;; ")
                    ),
                }
            }
        }
    });
    match r {
        Ok(s) => s,
        Err(p) => format!("PANIC {}: {}", p.file, p.message.chars().take(60).collect::<String>()),
    }
}

/// `pv oneshot`: case JSON + call JSON on stdin -> output on stdout (first call in a fresh process)
pub fn oneshot_main() -> i32 {
    use std::io::Read;
    let mut s = String::new();
    if std::io::stdin().read_to_string(&mut s).is_err() {
        return 2;
    }
    let Ok(v) = serde_json::from_str::<Value>(&s) else { return 2 };
    let (Ok(case), Ok(call)) = (
        serde_json::from_value::<Case>(v["case"].clone()),
        serde_json::from_value::<Call>(v["call"].clone()),
    ) else {
        return 2;
    };
    print!("{}", run_call(&case, &call));
    0
}

fn fresh_process(case: &Case, call: &Call) -> Option<String> {
    use std::io::Write;
    let exe = std::env::current_exe().ok()?;
    let mut child = std::process::Command::new(exe)
        .arg("oneshot")
        .stdin(std::process::Stdio::piped())
        .stdout(std::process::Stdio::piped())
        .stderr(std::process::Stdio::null())
        .spawn()
        .ok()?;
    {
        let mut stdin = child.stdin.take()?;
        let _ = stdin.write_all(json!({"case": case, "call": call}).to_string().as_bytes());
    }
    let out = child.wait_with_output().ok()?;
    if !out.status.success() {
        return None;
    }
    Some(String::from_utf8_lossy(&out.stdout).into_owned())
}

/// true if the two outputs consist of the same tokens in a different order (e.g. result columns
/// listed in another order)
fn order_only(a: &str, b: &str) -> bool {
    let toks = |s: &str| -> Vec<String> {
        let mut v: Vec<String> = s
            .split(|c: char| c.is_whitespace() || c == ',' || c == '(' || c == ')' || c == '[' || c == ']' || c == '{' || c == '}' || c == '"' || c == ':' || c == '\\')
            .filter(|x| !x.is_empty())
            .map(|x| x.to_string())
            .collect();
        v.sort();
        v
    };
    a != b && toks(a) == toks(b)
}

/// true if the two outputs are equal once the key lists of ORDER BY clauses are blanked
fn order_by_only(a: &str, b: &str) -> bool {
    let re = regex::Regex::new(r#"ORDER BY [A-Za-z0-9_.,"` ]+"#).unwrap();
    a != b && re.replace_all(a, "ORDER BY ?") == re.replace_all(b, "ORDER BY ?")
}

pub const F_ORDERBY: &str = "C11-order-by-alias-choice-hash-dependent";
pub const F_HELPERQ: &str = "C11-helper-column-qualifier-hash-dependent";

/// true if the two outputs are equal once the qualifier of every `x._expr_N` is blanked
fn helper_qualifier_only(a: &str, b: &str) -> bool {
    let re = regex::Regex::new(r#"[A-Za-z0-9_"`]+\._expr_(\d+)"#).unwrap();
    a != b && re.replace_all(a, "?._expr_$1") == re.replace_all(b, "?._expr_$1")
}

pub fn check(case: &Case, known: &Known) -> Outcome {
    // canonical outputs: two fresh processes per distinct call
    let mut distinct: Vec<Call> = case.calls.clone();
    distinct.sort();
    distinct.dedup();
    // project calls with different permutations must all agree: canonical is permutation 0
    let mut canon: BTreeMap<Call, String> = BTreeMap::new();
    let mut out = Outcome::pass();
    out.key = hash_of(&serde_json::to_string(case).unwrap_or_default());
    let attribute = |what: &str, a: &str, b: &str, detail: Value| -> Outcome {
        let mut o = Outcome::fail(what, detail);
        // the same hash-dependent choice of the ORDER BY alias sometimes runs into the recorded
        // panic "name of this column has not been to be set" and sometimes does not
        let pan = |x: &str| x.starts_with("PANIC") && x.contains("name of this column");
        if (pan(a) != pan(b)) && (a.starts_with("OK") || b.starts_with("OK")) && known.is_open(F_ORDERBY) {
            o.verdict = Verdict::Known(F_ORDERBY.into(), format!("{what}: panics or not depending on the alias choice"));
        } else if helper_qualifier_only(a, b) && known.is_open(F_HELPERQ) {
            o.verdict = Verdict::Known(F_HELPERQ.into(), format!("{what}: differs only in the qualifier of a helper column"));
        } else if order_by_only(a, b) && known.is_open(F_ORDERBY) {
            o.verdict = Verdict::Known(F_ORDERBY.into(), format!("{what}: differs only inside ORDER BY key lists"));
        } else if order_only(a, b) {
            let is_err = a.starts_with("ERR") || b.starts_with("ERR");
            let id = if is_err { F_ERRTEXT } else { F_ORDER };
            if known.is_open(id) {
                o.verdict = Verdict::Known(id.into(), format!("{what}: same tokens in a different order"));
            }
        }
        o
    };
    for c in &distinct {
        let key = if c.kind == 3 { Call { src: 0, ..c.clone() } } else { c.clone() };
        if canon.contains_key(&key) {
            continue;
        }
        let (Some(a), Some(b)) = (fresh_process(case, &key), fresh_process(case, &key)) else {
            return Outcome::skip("cannot run child process");
        };
        if a != b {
            return attribute(
                "two fresh processes give different output for the same call",
                &a,
                &b,
                json!({"call": key, "source": case.sources.get(key.src), "first": a, "second": b}),
            );
        }
        canon.insert(key, a);
    }
    // the history, on `threads` threads released together
    let nthreads = case.threads.max(1).min(case.calls.len().max(1));
    let barrier = std::sync::Barrier::new(nthreads);
    let results: Vec<Vec<(usize, String)>> = std::thread::scope(|s| {
        let mut hs = vec![];
        for t in 0..nthreads {
            let barrier = &barrier;
            hs.push(
                std::thread::Builder::new()
                    .stack_size(32 << 20)
                    .spawn_scoped(s, move || {
                        barrier.wait();
                        let mut v = vec![];
                        for (i, c) in case.calls.iter().enumerate() {
                            if i % nthreads == t {
                                v.push((i, run_call(case, c)));
                            }
                        }
                        v
                    })
                    .expect("spawn"),
            );
        }
        hs.into_iter().map(|h| h.join().unwrap_or_default()).collect()
    });
    let mut after_failure = false;
    let mut seen_fail = false;
    for (i, got) in results.into_iter().flatten() {
        let c = &case.calls[i];
        let key = if c.kind == 3 { Call { src: 0, ..c.clone() } } else { c.clone() };
        let want = &canon[&key];
        if seen_fail && got.starts_with("OK") {
            after_failure = true;
        }
        if got.starts_with("ERR") || got.starts_with("PANIC") {
            seen_fail = true;
        }
        if &got != want {
            return attribute(
                if c.kind == 3 {
                    "a multi-file project compiles differently when its files are enumerated in another order / in another call history"
                } else {
                    "a call inside a history gives a different output than the same call in a fresh process"
                },
                want,
                &got,
                json!({"call": c, "index": i, "threads": nthreads, "source": case.sources.get(c.src), "fresh_process": want, "in_history": got}),
            );
        }
    }
    out.nontrivial = (after_failure || nthreads >= 2) && case.calls.len() >= 3;
    out.classes.push(format!("threads={nthreads}"));
    if after_failure {
        out.classes.push("success_after_failure".into());
    }
    if !case.project.is_empty() {
        out.classes.push("multi_file".into());
    }
    out.sample = Some(json!({"calls": case.calls, "threads": nthreads, "sources": case.sources.iter().map(|s| s.chars().take(160).collect::<String>()).collect::<Vec<_>>()}));
    out
}

pub fn replay_any(_c: &str, case: &Value, known: &Known) -> Option<Outcome> {
    let c: Case = serde_json::from_value(case.clone()).ok()?;
    Some(check(&c, known))
}

pub fn run(ctx: &Ctx) -> i32 {
    ctx.run_replays(|c, case| replay_any(c, case, &ctx.known));
    ctx.shrink_iters.store(60, std::sync::atomic::Ordering::Relaxed);
    ctx.tape_search("histories", ctx.n(1_200, 40_000), 900, gen_case, |c| check(c, &ctx.known));
    ctx.finish(
        "histories of 3-12 calls (compile under a dialect, pl_to_rq as JSON, pl_to_prql, multi-file project compile with a permuted file enumeration) over a pool of 2-4 sources per case (generated programs with every construct, erroneous variants, hand-picked multi-candidate shapes: two unknown named arguments, unknown name with several inferred columns, a let-table joined three times, remove/intersect, a source that panics) dealt onto 1-8 threads released by a barrier. Oracle: every output equals the canonical output of that call from a fresh child process (run twice, both must agree). non-trivial = >= 3 calls and (>= 2 threads or a success after a failed/panicked call); distinct = whole case",
        &["thread schedules are sampled by the OS scheduler, not owned", "hash seeds are varied by fresh processes and fresh threads (RandomState keys differ per process and per map)", "PRQL_VERSION_OVERRIDE and other environment mutation are outside 'same options'"],
    )
}
