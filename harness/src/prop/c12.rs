//! C12 — no input makes a public entry point panic, abort or hang.

use serde::{Deserialize, Serialize};
use serde_json::{json, Value};

use crate::known::Known;
use crate::model::gen::{Bias, GenCfg};
use crate::model::print;
use crate::prop::{c01, c16};
use crate::runner::{catch, hash_of, Ctx, Outcome, PanicInfo, Verdict};
use crate::tape::Tape;
use crate::util::DIALECTS;

#[derive(Clone, Debug, Serialize, Deserialize)]
pub struct Case {
    /// "source" | "pl-json" | "rq-json"
    pub kind: String,
    pub input: String,
    pub dialect: usize,
}

/// Recorded panics are listed in known_findings.json with `panic_file` (path suffix) and
/// `panic_message_prefix`. Matching is on the file and the beginning of the message, never on
/// the line number.
/// name of the function that encloses `line` of `file` (nearest preceding `fn name`), read from the
/// source tree under test; panic signatures carry it so that a generic message (`unwrap()` on None)
/// in a large file is still one site, independent of line shifts
pub fn enclosing_fn(file: &str, line: u32) -> String {
    use std::collections::HashMap;
    use std::sync::{Mutex, OnceLock};
    static CACHE: OnceLock<Mutex<HashMap<String, Vec<String>>>> = OnceLock::new();
    let cache = CACHE.get_or_init(Default::default);
    let mut c = cache.lock().unwrap();
    let lines = c.entry(file.to_string()).or_insert_with(|| std::fs::read_to_string(file).map(|t| t.lines().map(|l| l.to_string()).collect()).unwrap_or_default());
    static RE: OnceLock<regex::Regex> = OnceLock::new();
    let re = RE.get_or_init(|| regex::Regex::new(r"\bfn\s+([A-Za-z_][A-Za-z0-9_]*)").unwrap());
    let mut i = (line as usize).min(lines.len());
    while i > 0 {
        i -= 1;
        if let Some(m) = re.captures(&lines[i]) {
            return m[1].to_string();
        }
    }
    String::new()
}

fn classify(p: &PanicInfo, known: &Known, case: &Case) -> Option<String> {
    for e in &known.entries {
        // optional: the function(s) the panic is raised in
        if let Some(fns) = e.get("panic_fn").and_then(|x| x.as_array()) {
            let f = enclosing_fn(&p.file, p.line);
            if !fns.iter().any(|x| x.as_str() == Some(f.as_str())) {
                continue;
            }
        }
        // optional narrowing of a signature whose message is generic (`unwrap()` on None ...): the
        // kind of input and a text the input must contain
        if let Some(k) = e.get("input_kind").and_then(|x| x.as_str()) {
            if k != case.kind {
                continue;
            }
        }
        if let Some(t) = e.get("input_contains").and_then(|x| x.as_str()) {
            if !case.input.contains(t) {
                continue;
            }
        }
        let (Some(file), Some(msg), Some(id)) = (
            e.get("panic_file").and_then(|x| x.as_str()),
            e.get("panic_message_prefix").and_then(|x| x.as_str()),
            e.get("id").and_then(|x| x.as_str()),
        ) else {
            continue;
        };
        if p.file.ends_with(file) && p.message.starts_with(msg) {
            return Some(id.to_string());
        }
    }
    None
}

const VOCAB: &[&str] = &[
    "from", "select", "derive", "filter", "sort", "take", "join", "group", "aggregate", "window", "append", "let",
    "into", "case", "func", "module", "this", "that", "std", "sum", "count", "min", "rank", "lag", "in", "as", "side:left",
    "rows:-1..1", "range:..0", "rolling:2", "expanding:true", "1", "0", "-1", "2.5", "null", "true", "\"a\"", "f\"{a}\"",
    "s\"{a}\"", "f\"\"", "f\"{a}\"", "(f\"\" ?? \"x\")", "@2020-01-01", "3days", "1..2", "..", "{", "}", "(", ")", "[", "]", ",", "|", "=", "==", "!=", "->", "=>",
    "+", "-", "*", "/", "//", "%", "**", "??", "&&", "||", "!", "~=", ".", ":", "t1", "id", "a", "`x y`", "$1", "é",
    "7 // 0", "3 % 0", "1 / 0", "0 ** -1", "9223372036854775807 + 1", "-9223372036854775808", "1e308 * 10", "0x7fffffffffffffff",
    "1e999", "0.0 / 0", "take 0", "take -1", "take 1..0", "take 9223372036854775807", "rows:5..1", "rolling:0", "rolling:-1",
    "loop", "remove", "intersect", "from_text", "read_csv", "internal", "prql", "type", "import", "enum", "@{a=1}", "\n",
    // s-strings in relation and expression position, raw strings, strings with multi-byte text
    "from s\"SELECT * FROM t1\"", "s\"SELECT id, a FROM t1 WHERE a > 1\"", "s\"select 1 as id\"", "s\"SELECT\"", "s\"SEL\"", "s\"\"",
    "\"\\u{0000041}\"", "\"\\u{110000}\"", "\"\\u{}\"", "\"\\u{D800}\"", "\"\\x4\"", "\"\\u{41\"", "f\"\\u{00000041}{a}\"",
    // inline data: JSON / CSV cells at the edges of i64, u64 and f64
    "from_text format:json '[{\"a\": 9223372036854775807, \"b\": 9223372036854775808}]'",
    "from_text format:json '[{\"a\": 18446744073709551615}, {\"a\": -9223372036854775809}]'",
    "from_text format:json '{\"columns\": [\"a\", \"b\"], \"data\": [[18446744073709551616, 1e400], [-1e-400, 12345678901234567890]]}'",
    "from_text format:json '[{\"a\": 1.7976931348623157e308, \"b\": [1], \"c\": {\"d\": 1}}]'",
    "from_text format:json '[]'", "from_text format:json '[{}]'", "from_text format:json '{\"columns\": [], \"data\": [[1]]}'",
    "from_text format:csv 'a,b\n99999999999999999999,1e999\n-0,'", "from_text format:csv ''", "from_text 'a\n\"x'",
    "(s\"SELECT * FROM {t1}\")", "s\"COALESCE({a}, 0)\"", "r\"a\\b\"", "\"é漢😀\"", "f\"é{a}漢\"", "'''a'''", "\"\\u{1F600}\"", "\"\\x41\"",
];

/// s-strings and strings in which a blank is a multi-byte look-alike (text pasted from a document)
const VOCAB_WIDE: &[&str] = &[
    "from s\"SELECT\u{a0}* FROM t1\"", "from s\"SELECT\u{3000}id FROM t1\"", "s\"select\u{a0}1 as id\"", "(s\"SELECT\u{2028}* FROM {t1}\")",
    "s\"COALESCE({a},\u{a0}0)\"", "\"a\u{a0}b\"", "f\"{a}\u{3000}{a}\"", "from\u{a0}t1", "select\u{a0}{id}", "r\"a\u{a0}b\"",
];

/// characters that look like a space or a letter but take more than one byte
const WIDE: &[&str] = &["\u{a0}", "\u{3000}", "\u{2028}", "é", "漢", "😀", "e\u{301}", "\u{feff}"];

fn base_source(t: &mut Tape) -> String {
    let mut cfg = GenCfg::general();
    cfg.bias = *t.pick(&[Bias::General, Bias::Frame, Bias::Window, Bias::Sort]);
    cfg.hazards = c16::ALL_HAZARDS.to_vec();
    let c = c01::gen_case(t, cfg);
    let mut src = print::program(&c.prog);
    // sometimes the first table is read through a table s-string (a valid program: the mutations
    // below then also hit the SQL fragment)
    if t.chance(1, 8) {
        let re = regex::Regex::new(r"from (t[0-9])\b").unwrap();
        src = re.replace(&src, "from s\"SELECT * FROM $1\"").into_owned();
    } else if t.chance(1, 8) {
        // ... or through inline data whose cells sit at the edges of the numeric types
        const CELLS: &[&str] = &[
            "0", "-1", "7", "9223372036854775807", "9223372036854775808", "-9223372036854775808", "-9223372036854775809",
            "18446744073709551615", "18446744073709551616", "123456789012345678901234567890", "1e308", "1e400", "-1e-400", "0.1", "1E5", "-0",
            "-0.0", "true", "null", "\"x\"", "1.7976931348623157e308", "4.9e-324",
        ];
        let re = regex::Regex::new(r"from (t[0-9])\b").unwrap();
        let nrows = 1 + t.choose(3);
        let cols = ["id", "a", "b", "k", "x"];
        let data = match t.choose(5) {
            // rows that are longer / shorter than the column list, or than each other
            3 => {
                let rows: Vec<String> = (0..nrows + 1)
                    .map(|_| {
                        let n = [cols.len(), cols.len() + 1, cols.len() - 1, 1, 0][t.choose(5)];
                        format!("[{}]", (0..n).map(|_| t.pick(CELLS).to_string()).collect::<Vec<_>>().join(", "))
                    })
                    .collect();
                let ncols = [cols.len(), 1, 0][t.choose(3)];
                format!("from_text format:json '{{\"columns\": [{}], \"data\": [{}]}}'", cols[..ncols].iter().map(|c| format!("\"{c}\"")).collect::<Vec<_>>().join(", "), rows.join(", "))
            }
            4 => {
                let rows: Vec<String> = (0..nrows + 1)
                    .map(|_| {
                        let n = [cols.len(), cols.len() - 1, 2, 1][t.choose(4)];
                        let mut fields: Vec<String> = cols[..n].iter().map(|c| format!("{c} = {}", t.pick(&["0", "-1", "7", "9223372036854775807", "0.1", "null", "\"x\"", "true"]))).collect();
                        if t.chance(1, 3) {
                            fields.push(format!("zextra = {}", t.choose(9)));
                        }
                        format!("{{{}}}", fields.join(", "))
                    })
                    .collect();
                format!("[{}]", rows.join(", "))
            }
            0 => {
                let rows: Vec<String> = (0..nrows).map(|_| format!("{{{}}}", cols.iter().map(|c| format!("\"{c}\": {}", t.pick(CELLS))).collect::<Vec<_>>().join(", "))).collect();
                format!("from_text format:json '[{}]'", rows.join(", "))
            }
            1 => {
                let rows: Vec<String> = (0..nrows).map(|_| format!("[{}]", cols.iter().map(|_| t.pick(CELLS).to_string()).collect::<Vec<_>>().join(", "))).collect();
                format!("from_text format:json '{{\"columns\": [{}], \"data\": [{}]}}'", cols.iter().map(|c| format!("\"{c}\"")).collect::<Vec<_>>().join(", "), rows.join(", "))
            }
            _ => {
                let rows: Vec<String> = (0..nrows).map(|_| cols.iter().map(|_| t.pick(CELLS).replace('"', "")).collect::<Vec<_>>().join(",")).collect();
                format!("from_text format:csv '{}\\n{}'", cols.join(","), rows.join("\\n"))
            }
        };
        src = re.replace(&src, format!("from ${{1}} = ({data})").as_str()).into_owned();
    }
    src
}

/// legal (or at least lexable) programs built around an empty construct
pub const EMPTY_CONSTRUCTS: &[&str] = &[
    "from t | derive {x = f\"\"}",
    "from t | select {x = f\"\" ?? \"a\", y = \"\"}",
    "from t | filter f\"\" == \"\" | aggregate {n = count f\"\"}",
    "from t | derive {x = f\"{a}\", y = f\"\", z = f\"{a}{b}\"} | sort {y}",
    "from t | derive {x = s\"\"}",
    "from t | select {}",
    "from t | select {a} | select !{a}",
    "from t | take 0",
    "from t | take 0..0",
    "from t | sort {}",
    "from t | group {} (aggregate {n = count this})",
    "from t | group {} (take 1)",
    "from t | aggregate {}",
    "from t | derive {}",
    "from t | window rows:0..0 (derive {s = sum a})",
    "from t | derive {x = case []}",
    "from t | filter (a | in [])",
    "from t | join u (true) | select {}",
    "from [] | select {a = 1}",
    "from [{}]",
    "from [{a = 1}] | select {}",
    "from t | append (from u | select {})",
    "let f = -> 1\nfrom t | derive {x = f}",
    "from t | derive {x = \"\" + \"\", y = r\"\", z = ''}",
    "from t | filter true | filter false | take 1..",
    "from_text ''",
    "from_text format:json '[]'",
    "from t | loop (filter false)",
    "module m {}\nfrom t",
    "from t | select {x = (a | in ..)}",
];

/// token-level mutation of a valid program
pub fn gen_source_case(t: &mut Tape) -> Case {
    let src = base_source(t);
    let dialect = t.choose(DIALECTS.len());
    let toks = match prqlc::prql_to_tokens(&src) {
        Ok(t) => t.0,
        Err(_) => {
            return Case {
                kind: "source".into(),
                input: src,
                dialect,
            }
        }
    };
    // pieces: token texts (skipping the synthetic Start)
    let mut pieces: Vec<String> = toks
        .iter()
        .skip(1)
        .map(|k| src[k.span.clone()].to_string())
        .collect();
    let nmut = 1 + t.choose(3);
    for _ in 0..nmut {
        if pieces.is_empty() {
            break;
        }
        let i = t.choose(pieces.len());
        match t.choose(8) {
            6 => {
                // text pasted from a document: spaces of one piece become a multi-byte look-alike
                let strs: Vec<usize> = (0..pieces.len()).filter(|k| pieces[*k].contains(' ')).collect();
                if !strs.is_empty() {
                    let k = strs[t.choose(strs.len())];
                    let w = *t.pick(WIDE);
                    pieces[k] = if t.chance(1, 2) { pieces[k].replace(' ', w) } else { pieces[k].replacen(' ', w, 1) };
                } else {
                    pieces[i] = t.pick(VOCAB).to_string();
                }
            }
            7 => {
                // a multi-byte character spliced into a piece at a character boundary
                let w = *t.pick(WIDE);
                let n = pieces[i].chars().count();
                let at = t.choose(n + 1);
                let mut o = String::new();
                for (k, c) in pieces[i].chars().enumerate() {
                    if k == at {
                        o.push_str(w);
                    }
                    o.push(c);
                }
                if at >= n {
                    o.push_str(w);
                }
                pieces[i] = o;
            }
            0 => {
                pieces.remove(i);
            }
            1 => {
                let p = pieces[i].clone();
                pieces.insert(i, p);
            }
            2 => {
                let j = t.choose(pieces.len());
                pieces.swap(i, j);
            }
            // one very long token (70 000 characters; lengths whose low 16 bits exceed 48 997 hit a
            // recorded formatter overflow and are not used)
            3 if t.chance(1, 40) => pieces[i] = format!("\"{}\"", "a".repeat(70_000)),
            3 => pieces[i] = if t.chance(1, 8) { t.pick(VOCAB_WIDE) } else { t.pick(VOCAB) }.to_string(),
            4 => pieces.insert(i, if t.chance(1, 8) { t.pick(VOCAB_WIDE) } else { t.pick(VOCAB) }.to_string()),
            _ => {
                let j = t.choose(pieces.len());
                pieces[i] = pieces[j].clone();
            }
        }
    }
    let input = pieces.join(" ");
    Case {
        kind: "source".into(),
        input,
        dialect,
    }
}

fn mutate_json(t: &mut Tape, v: &mut Value) {
    // collect paths
    fn paths(v: &Value, cur: &mut Vec<String>, out: &mut Vec<Vec<String>>) {
        out.push(cur.clone());
        match v {
            Value::Object(m) => {
                for (k, x) in m {
                    cur.push(k.clone());
                    paths(x, cur, out);
                    cur.pop();
                }
            }
            Value::Array(a) => {
                for (i, x) in a.iter().enumerate() {
                    cur.push(i.to_string());
                    paths(x, cur, out);
                    cur.pop();
                }
            }
            _ => {}
        }
    }
    fn get_mut<'a>(v: &'a mut Value, p: &[String]) -> Option<&'a mut Value> {
        let mut cur = v;
        for k in p {
            cur = match cur {
                Value::Object(m) => m.get_mut(k)?,
                Value::Array(a) => a.get_mut(k.parse::<usize>().ok()?)?,
                _ => return None,
            };
        }
        Some(cur)
    }
    let mut all = vec![];
    paths(v, &mut vec![], &mut all);
    if all.len() < 2 {
        return;
    }
    let p = all[1 + t.choose(all.len() - 1)].clone();
    let q = all[t.choose(all.len())].clone();
    let donor = get_mut(v, &q).cloned().unwrap_or(Value::Null);
    let choice = t.choose(7);
    let small = t.choose(40) as u64;
    if let Some(node) = get_mut(v, &p) {
        match choice {
            0 => *node = donor,
            1 => {
                if let Value::Number(_) = node {
                    *node = json!(small);
                } else {
                    *node = Value::Null;
                }
            }
            2 => {
                if let Value::Array(a) = node {
                    if !a.is_empty() {
                        a.pop();
                    }
                } else if let Value::Object(m) = node {
                    if let Some(k) = m.keys().next().cloned() {
                        m.remove(&k);
                    }
                }
            }
            3 => {
                if let Value::Array(a) = node {
                    if let Some(x) = a.first().cloned() {
                        a.push(x);
                    }
                } else {
                    *node = json!([donor]);
                }
            }
            4 => {
                if let Value::String(s) = node {
                    *s = ["std.sum", "std.eq", "std.zzz", "", "a", "Rows", "Desc"][small as usize % 7].to_string();
                } else {
                    *node = json!(small);
                }
            }
            5 => {
                if let Value::Number(n) = node {
                    let x = n.as_u64().unwrap_or(0);
                    *node = json!(x.wrapping_add(1 + small % 3));
                } else {
                    *node = json!(true);
                }
            }
            _ => *node = json!({"ColumnRef": small}),
        }
    }
}

pub fn gen_json_case(t: &mut Tape, rq: bool) -> Case {
    let src = base_source(t);
    let dialect = t.choose(DIALECTS.len());
    let text = catch(|| -> Option<String> {
        let pl = prqlc::prql_to_pl(&src).ok()?;
        if rq {
            let r = prqlc::pl_to_rq(pl).ok()?;
            prqlc::json::from_rq(&r).ok()
        } else {
            prqlc::json::from_pl(&pl).ok()
        }
    })
    .ok()
    .flatten();
    let mut v: Value = text
        .and_then(|s| serde_json::from_str(&s).ok())
        .unwrap_or(json!({}));
    let n = 1 + t.choose(3);
    for _ in 0..n {
        mutate_json(t, &mut v);
    }
    Case {
        kind: if rq { "rq-json" } else { "pl-json" }.into(),
        input: v.to_string(),
        dialect,
    }
}

/// Runs every stage reachable from the input; returns the first panic and how far it got.
pub fn drive(case: &Case) -> (Option<(String, PanicInfo)>, &'static str) {
    let d = DIALECTS[case.dialect % DIALECTS.len()].1;
    let o = crate::util::opts(Some(d));
    let mut reached = "lexer";
    macro_rules! stage {
        ($name:expr, $e:expr) => {
            match catch(|| $e) {
                Ok(v) => v,
                Err(p) => return (Some(($name.to_string(), p)), reached),
            }
        };
    }
    match case.kind.as_str() {
        "source" => {
            let src = &case.input;
            let toks = stage!("prql_to_tokens", prqlc::prql_to_tokens(src));
            if toks.is_err() {
                let _ = stage!("compile", prqlc::compile(src, &o));
                return (None, reached);
            }
            reached = "parser";
            let pl = stage!("prql_to_pl", prqlc::prql_to_pl(src));
            let _ = stage!("compile", prqlc::compile(src, &o));
            let Ok(pl) = pl else { return (None, reached) };
            reached = "resolver";
            let _ = stage!("pl_to_prql", prqlc::pl_to_prql(&pl));
            let rq = stage!("pl_to_rq", prqlc::pl_to_rq(pl));
            let Ok(rq) = rq else { return (None, reached) };
            reached = "sql";
            let _ = stage!("rq_to_sql", prqlc::rq_to_sql(rq, &o));
            (None, reached)
        }
        "pl-json" => {
            let pl = stage!("json::to_pl", prqlc::json::to_pl(&case.input));
            let Ok(pl) = pl else { return (None, "json") };
            reached = "resolver";
            let _ = stage!("pl_to_prql", prqlc::pl_to_prql(&pl));
            let _ = stage!("json::from_pl", prqlc::json::from_pl(&pl));
            let rq = stage!("pl_to_rq", prqlc::pl_to_rq(pl));
            let Ok(rq) = rq else { return (None, reached) };
            reached = "sql";
            let _ = stage!("rq_to_sql", prqlc::rq_to_sql(rq, &o));
            (None, reached)
        }
        _ => {
            let rq = stage!("json::to_rq", prqlc::json::to_rq(&case.input));
            let Ok(rq) = rq else { return (None, "json") };
            reached = "sql";
            let _ = stage!("json::from_rq", prqlc::json::from_rq(&rq));
            let _ = stage!("rq_to_sql", prqlc::rq_to_sql(rq, &o));
            (None, reached)
        }
    }
}

// ------------------------------------------------------------------------------------------
// isolation: cases are driven in worker processes (one per checking thread) so that a stack
// overflow or abort in prqlc kills the worker, not the check

/// `pv worker`: one JSON case per input line, one JSON result per output line
pub fn worker_main() -> i32 {
    use std::io::{BufRead, Write};
    let stdin = std::io::stdin();
    let stdout = std::io::stdout();
    for line in stdin.lock().lines() {
        let Ok(line) = line else { break };
        let res = match serde_json::from_str::<Case>(&line) {
            Ok(c) => {
                let (p, reached) = drive(&c);
                json!({"panic": p.map(|(stage, pi)| json!({"stage": stage, "info": pi})), "reached": reached})
            }
            Err(e) => json!({"bad_case": e.to_string()}),
        };
        let mut o = stdout.lock();
        let _ = writeln!(o, "{res}");
        let _ = o.flush();
    }
    0
}

struct Worker {
    child: std::process::Child,
    stdin: std::process::ChildStdin,
    rx: std::sync::mpsc::Receiver<String>,
}

impl Worker {
    fn spawn() -> Option<Worker> {
        use std::io::BufRead;
        let exe = std::env::current_exe().ok()?;
        let mut child = std::process::Command::new(exe)
            .arg("worker")
            .stdin(std::process::Stdio::piped())
            .stdout(std::process::Stdio::piped())
            .stderr(std::process::Stdio::null())
            .spawn()
            .ok()?;
        let stdin = child.stdin.take()?;
        let stdout = child.stdout.take()?;
        let (tx, rx) = std::sync::mpsc::channel();
        std::thread::spawn(move || {
            let r = std::io::BufReader::new(stdout);
            for l in r.lines() {
                match l {
                    Ok(l) => {
                        if tx.send(l).is_err() {
                            break;
                        }
                    }
                    Err(_) => break,
                }
            }
        });
        Some(Worker { child, stdin, rx })
    }
}

pub enum Driven {
    Done(Option<(String, PanicInfo)>, String),
    /// the worker process died (signal number if any)
    Died(Option<i32>),
    TimedOut,
    Infra(String),
}

static HANG_CONFIRMED: std::sync::atomic::AtomicBool = std::sync::atomic::AtomicBool::new(false);
static HANG_TIMEOUTS: std::sync::atomic::AtomicU32 = std::sync::atomic::AtomicU32::new(0);

thread_local! {
    static WORKER: std::cell::RefCell<Option<Worker>> = const { std::cell::RefCell::new(None) };
}

pub fn drive_isolated(case: &Case) -> Driven {
    use std::io::Write;
    use std::os::unix::process::ExitStatusExt;
    WORKER.with(|w| {
        let mut w = w.borrow_mut();
        if w.is_none() {
            *w = Worker::spawn();
        }
        let Some(worker) = w.as_mut() else {
            return Driven::Infra("cannot spawn worker".into());
        };
        let line = serde_json::to_string(case).unwrap_or_default();
        if writeln!(worker.stdin, "{line}").is_err() || worker.stdin.flush().is_err() {
            let st = worker.child.wait().ok();
            *w = None;
            return Driven::Died(st.and_then(|s| s.signal()));
        }
        // after a hang has been confirmed once, later cases (mostly shrink steps of it) are given 5 s
        // (the recorded unbounded `import` recursion is given 15 s: it only grows the stack)
        let limit = if HANG_CONFIRMED.load(std::sync::atomic::Ordering::Relaxed) {
            5
        } else if case.kind == "source" && case.input.contains("import") {
            15
        } else {
            60
        };
        match worker.rx.recv_timeout(std::time::Duration::from_secs(limit)) {
            Ok(resp) => {
                let v: Value = serde_json::from_str(&resp).unwrap_or(Value::Null);
                let reached = v["reached"].as_str().unwrap_or("?").to_string();
                let panic = v.get("panic").filter(|p| !p.is_null()).and_then(|p| {
                    let info = &p["info"];
                    Some((
                        p["stage"].as_str()?.to_string(),
                        PanicInfo {
                            file: info["file"].as_str()?.to_string(),
                            line: info["line"].as_u64()? as u32,
                            message: info["message"].as_str()?.to_string(),
                        },
                    ))
                });
                Driven::Done(panic, reached)
            }
            Err(std::sync::mpsc::RecvTimeoutError::Timeout) => {
                let _ = worker.child.kill();
                let _ = worker.child.wait();
                *w = None;
                Driven::TimedOut
            }
            Err(_) => {
                let st = worker.child.wait().ok();
                *w = None;
                Driven::Died(st.and_then(|s| s.signal()))
            }
        }
    })
}

pub fn check(case: &Case, known: &Known) -> Outcome {
    let (panic, reached) = match drive_isolated(case) {
        Driven::Done(p, r) => (p, r),
        Driven::TimedOut => {
            // no answer within 60 s. Slowness alone is inconclusive; but a short input without
            // deep nesting (the recorded exponential parse times need >= 16 nested brackets / case /
            // minus levels; at depth 12 they take well under a second) normally takes milliseconds:
            // retry it once in a fresh worker, and if there is still no answer after another 60 s
            // report it as not terminating.
            let mut depth = 0i32;
            let mut max_depth = 0i32;
            for ch in case.input.chars() {
                match ch {
                    '(' | '[' | '{' => {
                        depth += 1;
                        max_depth = max_depth.max(depth);
                    }
                    ')' | ']' | '}' => depth -= 1,
                    _ => {}
                }
            }
            let minus_run = case.input.split(|c: char| c != '-' && c != ' ' && c != '!').map(|r| r.chars().filter(|c| *c != ' ').count()).max().unwrap_or(0);
            let shallow = case.kind == "source" && case.input.len() <= 4096 && max_depth <= 12 && minus_run <= 12 && case.input.matches("case").count() <= 8;
            // the recorded `import` recursion (C12-abort-source) exhausts the stack; with the
            // worker's unlimited stack that takes longer than the watchdog allows
            if case.kind == "source" && case.input.contains("import") && known.is_open("C12-abort-source") {
                let mut o = Outcome::pass();
                o.verdict = Verdict::Known("C12-abort-source".into(), "self-referential import: unbounded recursion (time-out under an unlimited stack)".into());
                return o;
            }
            let fail = |c: &Case| {
                Outcome::fail(
                    "no result within 2 x 60 s for a short, shallow source (a stage does not terminate)",
                    json!({"kind": c.kind, "input": c.input, "bytes": c.input.len(), "max_bracket_depth": max_depth}),
                )
            };
            if shallow && HANG_CONFIRMED.load(std::sync::atomic::Ordering::Relaxed) {
                // bounded number of 5 s re-evaluations while the confirmed hang is being shrunk
                if HANG_TIMEOUTS.fetch_add(1, std::sync::atomic::Ordering::Relaxed) < 60 {
                    return fail(case);
                }
                return Outcome::skip("timeout (inconclusive)").class("timeout");
            }
            if shallow {
                if let Driven::TimedOut = drive_isolated(case) {
                    HANG_CONFIRMED.store(true, std::sync::atomic::Ordering::Relaxed);
                    return fail(case);
                }
            }
            eprintln!("C12: time-out (inconclusive) on a {} input of {} bytes: {:?}", case.kind, case.input.len(), case.input.chars().take(300).collect::<String>());
            let mut o = Outcome::skip("timeout (inconclusive)").class("timeout");
            o.sample = Some(json!({"timeout_input": case.input.chars().take(600).collect::<String>(), "kind": case.kind}));
            return o;
        }
        Driven::Infra(e) => return Outcome::skip(&format!("infrastructure: {e}")),
        Driven::Died(sig) => {
            let id = format!("C12-abort-{}", case.kind);
            let what = format!("process killed by signal {:?} (stack exhaustion / abort) on a {} input", sig, case.kind);
            let mut o = Outcome::fail(&what, json!({"kind": case.kind, "input": case.input, "dialect": DIALECTS[case.dialect % DIALECTS.len()].0}));
            // the recorded source abort is the self-referential `import` (e.g. `import x` + `from x`)
            let matches_sig = case.kind != "source" || case.input.contains("import");
            if matches_sig && known.is_open(&id) {
                o.verdict = Verdict::Known(id, what);
            }
            return o;
        }
    };
    judge_driven(case, panic, &reached, known)
}

/// In-process variant (libFuzzer targets): no isolation, so the caller keeps process-killing
/// inputs out (`fuzzglue::shallow_source`).
pub fn check_in_process(case: &Case, known: &Known) -> Outcome {
    let (panic, reached) = drive(case);
    judge_driven(case, panic, reached, known)
}

fn judge_driven(case: &Case, panic: Option<(String, PanicInfo)>, reached: &str, known: &Known) -> Outcome {
    let mut out = Outcome::pass();
    out.key = hash_of(&(&case.kind, &case.input, case.dialect));
    out.nontrivial = matches!(reached, "resolver" | "sql");
    out.classes.push(format!("{}:reached={}", case.kind, reached));
    if out.nontrivial {
        out.sample = Some(json!({"kind": case.kind, "input": case.input.chars().take(300).collect::<String>(), "reached": reached}));
    }
    if let Some((stage, p)) = panic {
        match classify(&p, known, case) {
            Some(id) => {
                out.verdict = Verdict::Known(id, format!("{} panics at {}: {}", stage, p.file, p.message.chars().take(80).collect::<String>()));
                out.classes.push(format!("known_panic_fn:{}:{}", p.file.rsplit('/').next().unwrap_or(""), enclosing_fn(&p.file, p.line)));
            }
            None if std::env::var("C12_DISCOVER").is_ok() => {
                // catalogue mode (not used by the registered checks): list distinct unknown panics
                use std::io::Write;
                static SEEN: std::sync::Mutex<Vec<String>> = std::sync::Mutex::new(Vec::new());
                let msg: String = p.message.chars().take(50).collect();
                let sig = format!("{}|{}", p.file, msg);
                let mut seen = SEEN.lock().unwrap();
                if !seen.contains(&sig) {
                    seen.push(sig.clone());
                    if let Ok(mut f) = std::fs::OpenOptions::new().create(true).append(true).open("/tmp/c12_discover.jsonl") {
                        let _ = writeln!(f, "{}", json!({"file": p.file, "message": p.message, "stage": stage, "kind": case.kind, "dialect": DIALECTS[case.dialect % DIALECTS.len()].0, "input": case.input}));
                    }
                }
                return Outcome::skip(&format!("DISCOVER {sig}"));
            }
            None => {
                out.verdict = Verdict::Fail(
                    format!("{} panics at {}:{}", stage, p.file.rsplit("/prqlc/").next().unwrap_or(&p.file), p.line),
                    json!({"kind": case.kind, "input": case.input, "dialect": DIALECTS[case.dialect % DIALECTS.len()].0, "stage": stage, "panic": p}),
                );
            }
        }
    }
    out
}

pub fn replay_any(_c: &str, case: &Value, known: &Known) -> Option<Outcome> {
    let c: Case = serde_json::from_value(case.clone()).ok()?;
    Some(check(&c, known))
}

// ------------------------------------------------------------------------------------------
// depth ladder (stack exhaustion): run in a child process with the default 8 MiB main-thread stack

pub fn nested(kind: &str, depth: usize) -> String {
    match kind {
        "parens" => format!("from t | select {{x = {}1{}}}", "(".repeat(depth), ")".repeat(depth)),
        "neg" => format!("from t | select {{x = {}1{}}}", "-(".repeat(depth), ")".repeat(depth)),
        "tuple" => format!("from t | select {}a{}", "{".repeat(depth), "}".repeat(depth)),
        "array" => format!("from t | filter (a | in {}1{})", "[".repeat(depth), "]".repeat(depth)),
        "not" => format!("from t | filter {}true", "!".repeat(depth)),
        "add" => format!("from t | select {{x = 1{}}}", " + 1".repeat(depth)),
        "pipeline" => format!("from t{}", " | derive {x = 1}".repeat(depth)),
        "lets" => {
            let mut s = String::from("let l0 = (from t)\n");
            for i in 1..depth {
                s.push_str(&format!("let l{i} = (from l{})\n", i - 1));
            }
            s.push_str(&format!("from l{}", depth.saturating_sub(1)));
            s
        }
        "case" => format!("from t | select {{x = {}1{}}}", "case [true => ".repeat(depth), "]".repeat(depth)),
        _ => format!("from t | select {{x = f\"{}\"}}", "{a}".repeat(depth)),
    }
}

pub const LADDER_KINDS: &[&str] = &["parens", "neg", "tuple", "array", "not", "add", "pipeline", "lets", "case", "fstr"];

/// child entry: `pv depth <kind> <depth>`; exit 0 = returned a value or errors
pub fn depth_child(kind: &str, depth: usize) -> i32 {
    let src = nested(kind, depth);
    let o = crate::util::opts(None);
    let _ = prqlc::prql_to_tokens(&src);
    if let Ok(pl) = prqlc::prql_to_pl(&src) {
        let _ = prqlc::pl_to_prql(&pl);
    }
    let _ = prqlc::compile(&src, &o);
    0
}

fn run_ladder(ctx: &Ctx) {
    let exe = std::env::current_exe().expect("current exe");
    // Rungs are chosen so that each finishes in seconds on the unchanged tree: nesting of
    // tuples / arrays / case / unary minus takes exponential time in the parser (tuple x 32: 8 s,
    // array x 32: 26 s, case x 24: 39 s; observation recorded in DESIGN.md), which a watchdog can
    // only report as inconclusive.
    let thorough = !ctx.quick();
    let mut jobs: Vec<(String, usize)> = vec![];
    let mut add = |k: &str, ds: &[usize]| {
        for d in ds {
            jobs.push((k.to_string(), *d));
        }
    };
    add("parens", &[64, 512, 4096]);
    add("not", &[64, 512, 4096]);
    add("neg", &[16, 64]);
    add("tuple", &[8, 16]);
    add("array", &[8, 16]);
    add("case", &[8, 12]);
    add("add", &[64, 512, 1024]);
    add("pipeline", &[64, 512, 1024]);
    add("lets", &[64, 512, 4096]);
    add("fstr", &[64, 512, 4096]);
    if thorough {
        add("parens", &[16384, 65536]);
        add("not", &[16384]);
        add("add", &[4096]);
        add("pipeline", &[4096]);
        add("lets", &[16384]);
        add("fstr", &[16384]);
    }
    ctx.enumerate("depth-ladder", jobs, |(kind, depth)| {
        let start = std::time::Instant::now();
        let mut child = match std::process::Command::new(&exe)
            .arg("depth")
            .arg(kind)
            .arg(depth.to_string())
            .stdout(std::process::Stdio::null())
            .stderr(std::process::Stdio::null())
            .spawn()
        {
            Ok(c) => c,
            Err(_) => return Outcome::skip("cannot spawn child"),
        };
        // watchdog: a time-out is inconclusive, never a violation
        let status = loop {
            match child.try_wait() {
                Ok(Some(s)) => break Some(s),
                Ok(None) => {
                    if start.elapsed().as_secs() > 30 {
                        let _ = child.kill();
                        let _ = child.wait();
                        break None;
                    }
                    std::thread::sleep(std::time::Duration::from_millis(20));
                }
                Err(_) => break None,
            }
        };
        let mut out = Outcome::pass();
        out.key = hash_of(&(kind, depth));
        out.nontrivial = true;
        out.classes.push(format!("ladder:{kind}"));
        out.sample = Some(json!({"kind": kind, "depth": depth}));
        match status {
            None => Outcome::skip("ladder_timeout (inconclusive)").class("ladder_timeout"),
            Some(s) if s.success() => out,
            Some(s) => {
                use std::os::unix::process::ExitStatusExt;
                let what = match s.signal() {
                    Some(sig) => format!("nesting `{kind}` x {depth}: process killed by signal {sig} (stack exhaustion)"),
                    None => format!("nesting `{kind}` x {depth}: process exits with {:?} (panic)", s.code()),
                };
                let id = format!("C12-deep-nesting-{kind}");
                if ctx.known.is_open(&id) {
                    out.verdict = Verdict::Known(id, what);
                } else {
                    out.verdict = Verdict::Fail(what, json!({"kind": kind, "depth": depth, "source_prefix": nested(kind, *depth).chars().take(120).collect::<String>()}));
                }
                out
            }
        }
    });
}

pub fn run(ctx: &Ctx) -> i32 {
    ctx.run_replays(|c, case| replay_any(c, case, &ctx.known));
    // corpus replay: the repository's queries under every dialect
    let mut corpus = vec![];
    for s in crate::util::corpus_programs() {
        for d in 0..DIALECTS.len() {
            corpus.push(Case { kind: "source".into(), input: s.clone(), dialect: d });
        }
    }
    // constructs with nothing in them, under every dialect
    for s in EMPTY_CONSTRUCTS {
        for d in 0..DIALECTS.len() {
            corpus.push(Case { kind: "source".into(), input: format!("{s}\n"), dialect: d });
        }
    }
    ctx.enumerate("repo-queries", corpus, |c| check(c, &ctx.known));
    ctx.tape_search("token-mutation", ctx.n(40_000, 2_000_000), 500, gen_source_case, |c| check(c, &ctx.known));
    ctx.tape_search("pl-json-mutation", ctx.n(6_000, 300_000), 500, |t| gen_json_case(t, false), |c| check(c, &ctx.known));
    ctx.tape_search("rq-json-mutation", ctx.n(6_000, 300_000), 500, |t| gen_json_case(t, true), |c| check(c, &ctx.known));
    run_ladder(ctx);
    if !ctx.quick() {
        ctx.fuzz_campaign("src_stages", ctx.fuzz_secs(300), 2048);
    }
    if !ctx.quick() {
        ctx.fuzz_campaign("json_pl", ctx.fuzz_secs(200), 32768);
    }
    if !ctx.quick() {
        ctx.fuzz_campaign("json_rq", ctx.fuzz_secs(200), 32768);
    }
    ctx.finish(
        "(a) token-level mutations (delete / duplicate / swap / replace / insert from a vocabulary / copy) of valid generated programs, 1-3 per case; (b) structure-aware mutations of valid PL JSON and (c) of valid RQ JSON (graft a sub-tree, retype, drop a field or element, duplicate an element, renumber an id, rename an operator, inject a ColumnRef); (d) the repository's queries under all 12 dialects; (e) a deterministic nesting ladder (parentheses, unary minus, tuples, arrays, !, +, pipeline length, let chains, case, f-string parts) run in child processes with the default main-thread stack. Each case drives prql_to_tokens, prql_to_pl, pl_to_prql, pl_to_rq, rq_to_sql, compile, json::* under catch_unwind; a panic or a deadly signal is a violation unless it matches a recorded panic (file + message prefix). non-trivial = the input reaches the resolver or the SQL back-end (or is a ladder rung); distinct = (kind, input, dialect)",
        &["termination / polynomial time cannot be decided by testing: a watchdog time-out is reported as inconclusive, never as a violation", "recorded panics are matched on file and message prefix, not on line numbers"],
    )
}
