//! Binder over sqlparser's AST (walked in its serde JSON form): scopes, column resolution and
//! output column names of emitted SQL, for every dialect sqlparser can parse. Independent of
//! prqlc's text emission (which goes through Display and an s-string text splice).

use std::collections::HashMap;

use serde_json::Value;
use sqlparser::dialect::*;
use sqlparser::parser::Parser;

pub fn dialect_for(name: &str) -> Box<dyn Dialect> {
    match name {
        "sqlite" => Box::new(SQLiteDialect {}),
        "postgres" | "glaredb" => Box::new(PostgreSqlDialect {}),
        "mysql" => Box::new(MySqlDialect {}),
        "mssql" => Box::new(MsSqlDialect {}),
        "clickhouse" => Box::new(ClickHouseDialect {}),
        "bigquery" => Box::new(BigQueryDialect {}),
        "duckdb" => Box::new(DuckDbDialect {}),
        "snowflake" => Box::new(SnowflakeDialect {}),
        "ansi" => Box::new(AnsiDialect {}),
        "redshift" => Box::new(RedshiftSqlDialect {}),
        _ => Box::new(GenericDialect {}),
    }
}

#[derive(Clone, Debug)]
pub struct Rel {
    pub name: String,
    /// None = columns unknown
    pub cols: Option<Vec<Option<String>>>,
}

#[derive(Default)]
pub struct Bound {
    /// output columns of the statement (None = unnamed expression)
    pub columns: Vec<Option<String>>,
    pub errors: Vec<String>,
    pub ctes: usize,
    pub joins: usize,
}

pub struct Schema {
    /// base tables: name -> column names
    pub tables: HashMap<String, Vec<String>>,
    /// identifiers compare case-insensitively unless quoted (we compare exact first, then folded)
    pub fold_case: bool,
}

fn ident_value(v: &Value) -> Option<String> {
    v.get("value").and_then(|x| x.as_str()).map(|s| s.to_string())
}

fn object_name(v: &Value) -> Vec<String> {
    // ObjectName(Vec<ObjectNamePart>), ObjectNamePart::Identifier(Ident)
    let mut out = vec![];
    if let Some(a) = v.as_array() {
        for p in a {
            if let Some(id) = p.get("Identifier") {
                if let Some(s) = ident_value(id) {
                    out.push(s);
                }
            } else if let Some(s) = ident_value(p) {
                out.push(s);
            }
        }
    }
    out
}

fn is_query(v: &Value) -> bool {
    v.as_object()
        .map(|m| m.contains_key("body") && m.contains_key("with") && m.contains_key("order_by"))
        .unwrap_or(false)
}

struct Binder<'a> {
    schema: &'a Schema,
    errors: Vec<String>,
    ctes_seen: usize,
    joins_seen: usize,
}

type Ctes = HashMap<String, Vec<Option<String>>>;

impl<'a> Binder<'a> {
    fn err(&mut self, s: String) {
        if self.errors.len() < 6 && !self.errors.contains(&s) {
            self.errors.push(s);
        }
    }

    fn eq(&self, a: &str, b: &str) -> bool {
        a == b || (self.schema.fold_case && a.eq_ignore_ascii_case(b))
    }

    fn query(&mut self, q: &Value, ctes: &Ctes, outer: &[Rel]) -> Vec<Option<String>> {
        let mut ctes = ctes.clone();
        if let Some(with) = q.get("with").filter(|w| !w.is_null()) {
            let recursive = with.get("recursive").and_then(|r| r.as_bool()).unwrap_or(false);
            if let Some(list) = with.get("cte_tables").and_then(|c| c.as_array()) {
                for cte in list {
                    self.ctes_seen += 1;
                    let name = cte
                        .get("alias")
                        .and_then(|a| a.get("name"))
                        .and_then(ident_value)
                        .unwrap_or_default();
                    if recursive {
                        // the recursive CTE may refer to itself: its columns are those of the
                        // anchor (left operand of the UNION)
                        let anchor = cte
                            .get("query")
                            .and_then(|q| q.get("body"))
                            .and_then(|b| b.get("SetOperation"))
                            .map(|so| so["left"].clone());
                        if let Some(a) = anchor {
                            let saved = self.errors.len();
                            let (cols, _) = self.set_expr(&a, &ctes, &[]);
                            self.errors.truncate(saved);
                            ctes.entry(name.clone()).or_insert(cols);
                        }
                    }
                    let cols = match cte.get("query") {
                        Some(cq) => self.query(cq, &ctes, &[]),
                        None => vec![],
                    };
                    if ctes.contains_key(&name) && !recursive {
                        self.err(format!("CTE name {name} is defined twice"));
                    }
                    ctes.insert(name, cols);
                }
            }
        }
        let body = &q["body"];
        let (cols, scope) = self.set_expr(body, &ctes, outer);
        // ORDER BY of the query: projection aliases and the scope of a plain SELECT body
        if let Some(ob) = q.get("order_by").filter(|o| !o.is_null()) {
            let mut scope2 = scope.clone();
            scope2.push(Rel {
                name: String::new(),
                cols: Some(cols.clone()),
            });
            self.exprs(ob, &ctes, &scope2, outer, "ORDER BY");
        }
        for k in ["limit_clause", "fetch"] {
            if let Some(v) = q.get(k).filter(|o| !o.is_null()) {
                self.exprs(v, &ctes, &[], outer, k);
            }
        }
        cols
    }

    /// returns (output columns, scope of the body if it is a plain SELECT)
    fn set_expr(&mut self, body: &Value, ctes: &Ctes, outer: &[Rel]) -> (Vec<Option<String>>, Vec<Rel>) {
        if let Some(s) = body.get("Select") {
            return self.select(s, ctes, outer);
        }
        if let Some(q) = body.get("Query") {
            return (self.query(q, ctes, outer), vec![]);
        }
        if let Some(so) = body.get("SetOperation") {
            let (l, _) = self.set_expr(&so["left"], ctes, outer);
            let (r, _) = self.set_expr(&so["right"], ctes, outer);
            if l.len() != r.len() {
                self.err(format!(
                    "set operation between {} and {} columns",
                    l.len(),
                    r.len()
                ));
            }
            return (l, vec![]);
        }
        if let Some(v) = body.get("Values") {
            let n = v
                .get("rows")
                .and_then(|r| r.as_array())
                .and_then(|r| r.first())
                .and_then(|r| r.as_array())
                .map(|r| r.len())
                .unwrap_or(0);
            return (vec![None; n], vec![]);
        }
        self.err("unsupported query body".into());
        (vec![], vec![])
    }

    fn table_factor(&mut self, tf: &Value, ctes: &Ctes, outer: &[Rel]) -> Option<Rel> {
        if let Some(t) = tf.get("Table") {
            let parts = object_name(&t["name"]);
            let tname = parts.last().cloned().unwrap_or_default();
            let alias = t
                .get("alias")
                .filter(|a| !a.is_null())
                .and_then(|a| a.get("name"))
                .and_then(ident_value);
            let cols: Option<Vec<Option<String>>> = if parts.len() == 1 && ctes.contains_key(&tname) {
                Some(ctes[&tname].clone())
            } else if let Some((_, c)) = self.schema.tables.iter().find(|(k, _)| self.eq(k, &tname)) {
                Some(c.iter().map(|x| Some(x.clone())).collect())
            } else {
                if t.get("args").map(|a| a.is_null()).unwrap_or(true) {
                    self.err(format!("table {} is neither a base table nor a CTE in scope", parts.join(".")));
                }
                None
            };
            return Some(Rel {
                name: alias.unwrap_or(tname),
                cols,
            });
        }
        if let Some(d) = tf.get("Derived") {
            let cols = self.query(&d["subquery"], ctes, outer);
            let alias = d
                .get("alias")
                .filter(|a| !a.is_null())
                .and_then(|a| a.get("name"))
                .and_then(ident_value)
                .unwrap_or_default();
            return Some(Rel {
                name: alias,
                cols: Some(cols),
            });
        }
        if let Some(n) = tf.get("NestedJoin") {
            // treat as opaque: bind inner relations into one anonymous relation
            let mut cols = vec![];
            let inner = &n["table_with_joins"];
            for r in self.table_with_joins(inner, ctes, outer) {
                if let Some(c) = r.cols {
                    cols.extend(c);
                }
            }
            return Some(Rel {
                name: String::new(),
                cols: Some(cols),
            });
        }
        // table functions etc.: unknown columns
        Some(Rel {
            name: String::new(),
            cols: None,
        })
    }

    fn table_with_joins(&mut self, twj: &Value, ctes: &Ctes, outer: &[Rel]) -> Vec<Rel> {
        let mut rels = vec![];
        if let Some(r) = self.table_factor(&twj["relation"], ctes, outer) {
            rels.push(r);
        }
        if let Some(js) = twj.get("joins").and_then(|j| j.as_array()) {
            for j in js {
                self.joins_seen += 1;
                if let Some(r) = self.table_factor(&j["relation"], ctes, outer) {
                    rels.push(r);
                }
                // the ON expression sees the relations joined so far
                let scope = rels.clone();
                self.exprs(&j["join_operator"], ctes, &scope, outer, "JOIN ... ON");
            }
        }
        rels
    }

    fn select(&mut self, s: &Value, ctes: &Ctes, outer: &[Rel]) -> (Vec<Option<String>>, Vec<Rel>) {
        let mut scope: Vec<Rel> = vec![];
        if let Some(from) = s.get("from").and_then(|f| f.as_array()) {
            for twj in from {
                scope.extend(self.table_with_joins(twj, ctes, outer));
            }
        }
        // relation aliases unique per SELECT
        for i in 0..scope.len() {
            for j in 0..i {
                if !scope[i].name.is_empty() && self.eq(&scope[i].name, &scope[j].name) {
                    let n = scope[i].name.clone();
                    self.err(format!("relation name {n} is used twice in one FROM"));
                }
            }
        }
        let mut out: Vec<Option<String>> = vec![];
        let proj = s.get("projection").and_then(|p| p.as_array()).cloned().unwrap_or_default();
        if proj.is_empty() {
            self.err("empty projection".into());
        }
        for item in &proj {
            if let Some(e) = item.get("UnnamedExpr") {
                self.exprs(e, ctes, &scope, outer, "SELECT");
                let name = if let Some(id) = e.get("Identifier") {
                    ident_value(id)
                } else if let Some(ci) = e.get("CompoundIdentifier").and_then(|c| c.as_array()) {
                    ci.last().and_then(ident_value)
                } else {
                    None
                };
                out.push(name);
            } else if let Some(ea) = item.get("ExprWithAlias") {
                self.exprs(&ea["expr"], ctes, &scope, outer, "SELECT");
                out.push(ident_value(&ea["alias"]));
            } else if let Some(w) = item.get("Wildcard") {
                let excl = excluded(w);
                if scope.is_empty() {
                    self.err("`*` without a FROM relation".into());
                }
                for r in &scope {
                    match &r.cols {
                        Some(cs) => {
                            for c in cs {
                                if !c.as_ref().map(|c| excl.iter().any(|e| self.eq(e, c))).unwrap_or(false) {
                                    out.push(c.clone());
                                }
                            }
                        }
                        None => self.err(format!("`*` over relation {} with unknown columns", r.name)),
                    }
                }
            } else if let Some(qw) = item.get("QualifiedWildcard").and_then(|q| q.as_array()) {
                let kind = &qw[0];
                let excl = qw.get(1).map(excluded).unwrap_or_default();
                let parts = kind.get("ObjectName").map(object_name).unwrap_or_default();
                let rn = parts.last().cloned().unwrap_or_default();
                match scope.iter().find(|r| self.eq(&r.name, &rn)) {
                    Some(r) => {
                        if let Some(cs) = &r.cols {
                            for c in cs {
                                if !c.as_ref().map(|c| excl.iter().any(|e| self.eq(e, c))).unwrap_or(false) {
                                    out.push(c.clone());
                                }
                            }
                        }
                    }
                    None => self.err(format!("`{rn}.*` names a relation that is not in this FROM")),
                }
            } else {
                self.err(format!("unknown select item {item}"));
            }
        }
        // the other clauses: FROM scope plus projection aliases (lenient: GROUP BY / HAVING /
        // QUALIFY may use aliases in several dialects)
        let mut scope_alias = scope.clone();
        scope_alias.push(Rel {
            name: String::new(),
            cols: Some(out.clone()),
        });
        for (k, sc, what) in [
            ("selection", &scope, "WHERE"),
            ("prewhere", &scope, "PREWHERE"),
            ("group_by", &scope_alias, "GROUP BY"),
            ("having", &scope_alias, "HAVING"),
            ("qualify", &scope_alias, "QUALIFY"),
            ("named_window", &scope, "WINDOW"),
            ("sort_by", &scope_alias, "SORT BY"),
            ("distinct", &scope_alias, "DISTINCT ON"),
            ("top", &scope, "TOP"),
        ] {
            if let Some(v) = s.get(k).filter(|v| !v.is_null()) {
                let sc = sc.clone();
                self.exprs(v, ctes, &sc, outer, what);
            }
        }
        (out, scope)
    }

    /// resolve every column reference inside an arbitrary AST fragment
    fn exprs(&mut self, v: &Value, ctes: &Ctes, scope: &[Rel], outer: &[Rel], clause: &str) {
        match v {
            Value::Object(m) => {
                if is_query(v) {
                    // nested query: its own scope, may be correlated with ours
                    let mut o: Vec<Rel> = scope.to_vec();
                    o.extend(outer.iter().cloned());
                    self.query(v, ctes, &o);
                    return;
                }
                if m.len() == 1 {
                    if let Some(id) = m.get("Identifier") {
                        if let Some(name) = ident_value(id) {
                            self.resolve(None, &name, scope, outer, clause);
                        }
                        return;
                    }
                    if let Some(ci) = m.get("CompoundIdentifier").and_then(|c| c.as_array()) {
                        let parts: Vec<String> = ci.iter().filter_map(ident_value).collect();
                        if parts.len() >= 2 {
                            self.resolve(Some(&parts[parts.len() - 2]), &parts[parts.len() - 1], scope, outer, clause);
                        }
                        return;
                    }
                }
                for (k, x) in m {
                    // names of functions, types, aliases are not column references
                    if k == "name" || k == "alias" || k == "data_type" || k == "span" || k == "select_token" {
                        continue;
                    }
                    self.exprs(x, ctes, scope, outer, clause);
                }
            }
            Value::Array(a) => {
                for x in a {
                    self.exprs(x, ctes, scope, outer, clause);
                }
            }
            _ => {}
        }
    }

    fn resolve(&mut self, rel: Option<&str>, col: &str, scope: &[Rel], outer: &[Rel], clause: &str) {
        let all: Vec<&Rel> = scope.iter().chain(outer.iter()).collect();
        match rel {
            Some(r) => match all.iter().find(|x| !x.name.is_empty() && self.eq(&x.name, r)) {
                None => self.err(format!("{clause}: qualifier {r} (in {r}.{col}) names no relation in scope")),
                Some(x) => {
                    if let Some(cs) = &x.cols {
                        if !cs.iter().any(|c| c.as_ref().map(|c| self.eq(c, col)).unwrap_or(false)) {
                            self.err(format!("{clause}: {r}.{col}: relation {r} has no column {col}"));
                        }
                    }
                }
            },
            None => {
                let mut hits = 0;
                let mut unknown = false;
                for x in scope {
                    match &x.cols {
                        Some(cs) => {
                            if cs.iter().any(|c| c.as_ref().map(|c| self.eq(c, col)).unwrap_or(false)) {
                                hits += 1;
                            }
                        }
                        None => unknown = true,
                    }
                }
                if hits == 0 && !unknown {
                    // correlated reference?
                    let o = outer.iter().any(|x| {
                        x.cols
                            .as_ref()
                            .map(|cs| cs.iter().any(|c| c.as_ref().map(|c| self.eq(c, col)).unwrap_or(false)))
                            .unwrap_or(true)
                    });
                    if !o {
                        self.err(format!("{clause}: column {col} is not in scope"));
                    }
                }
            }
        }
    }
}

fn excluded(opts: &Value) -> Vec<String> {
    let mut out = vec![];
    fn idents(v: &Value, out: &mut Vec<String>) {
        match v {
            Value::Object(m) => {
                if let (Some(val), true) = (m.get("value").and_then(|x| x.as_str()), m.contains_key("quote_style")) {
                    out.push(val.to_string());
                    return;
                }
                for (_, x) in m {
                    idents(x, out);
                }
            }
            Value::Array(a) => {
                for x in a {
                    idents(x, out);
                }
            }
            _ => {}
        }
    }
    for k in ["opt_exclude", "opt_except"] {
        if let Some(v) = opts.get(k) {
            idents(v, &mut out);
        }
    }
    out
}

pub enum Parsed {
    /// not exactly one query / parse error
    Syntax(String),
    Ok(Bound),
}

pub fn bind(sql: &str, dialect: &str, schema: &Schema) -> Parsed {
    let d = dialect_for(dialect);
    let stmts = match Parser::parse_sql(&*d, sql) {
        Ok(s) => s,
        Err(e) => return Parsed::Syntax(e.to_string()),
    };
    if stmts.len() != 1 {
        return Parsed::Syntax(format!("{} statements instead of one", stmts.len()));
    }
    let v = match serde_json::to_value(&stmts[0]) {
        Ok(v) => v,
        Err(e) => return Parsed::Syntax(format!("cannot serialise AST: {e}")),
    };
    let Some(q) = v.get("Query") else {
        return Parsed::Syntax("statement is not a query".into());
    };
    let mut b = Binder {
        schema,
        errors: vec![],
        ctes_seen: 0,
        joins_seen: 0,
    };
    let cols = b.query(q, &HashMap::new(), &[]);
    Parsed::Ok(Bound {
        columns: cols,
        errors: b.errors,
        ctes: b.ctes_seen,
        joins: b.joins_seen,
    })
}
