//! known_findings.json: genuine defects recorded rather than repaired.
//! A finding suppresses a failure only if (a) it is listed with status "open" and
//! (b) the property's own predicate for that finding id matches the failing case.
//! Nothing is ever added to the file at run time.

use std::collections::BTreeMap;

use serde_json::Value;

#[derive(Default, Clone, Debug)]
pub struct Known {
    open: BTreeMap<String, String>,
    /// raw entries of the open findings (extra fields such as panic signatures)
    pub entries: Vec<Value>,
}

impl Known {
    pub fn load(property: &str) -> Known {
        let path = crate::verif_dir().join("known_findings.json");
        let mut k = Known::default();
        let Ok(text) = std::fs::read_to_string(path) else {
            return k;
        };
        let Ok(v) = serde_json::from_str::<Value>(&text) else {
            eprintln!("known_findings.json does not parse; treating as empty");
            return k;
        };
        if let Some(arr) = v.get("findings").and_then(|f| f.as_array()) {
            for f in arr {
                let id = f.get("id").and_then(|x| x.as_str()).unwrap_or("");
                let prop = f.get("property").and_then(|x| x.as_str()).unwrap_or("");
                let also = f
                    .get("also_seen_by")
                    .and_then(|x| x.as_array())
                    .map(|a| a.iter().any(|p| p.as_str() == Some(property)))
                    .unwrap_or(false);
                let status = f.get("status").and_then(|x| x.as_str()).unwrap_or("open");
                if (prop == property || also) && status == "open" && !id.is_empty() {
                    k.entries.push(f.clone());
                    k.open.insert(
                        id.to_string(),
                        f.get("signature")
                            .and_then(|x| x.as_str())
                            .unwrap_or("")
                            .to_string(),
                    );
                }
            }
        }
        k
    }

    pub fn is_open(&self, id: &str) -> bool {
        self.open.contains_key(id)
    }

    pub fn ids(&self) -> Vec<String> {
        self.open.keys().cloned().collect()
    }
}
