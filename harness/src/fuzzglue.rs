//! Glue between libFuzzer targets (`/verif/fuzz`) and the oracles of `prop/*`.
//!
//! One function decodes the fuzzer's bytes into the case type of a property's check and judges
//! it with *the same oracle* the proptest streams use, so a coverage-guided campaign and a
//! random one differ only in how the inputs are found. In the fuzz process a `Fail` verdict
//! aborts (libFuzzer saves the input as an artifact); `pv` later re-judges every artifact with
//! `decode_and_judge` in the ordinary build and turns a reproduced failure into a replay file.
//! Recorded findings are tolerated in-target (Known verdict) so that a campaign continues behind
//! them.

use std::sync::OnceLock;

use serde_json::{json, Value};

use crate::known::Known;
use crate::prop::{c01, c10, c12, c13, c14, c15, c16, c17};
use crate::runner::{Outcome, Verdict};
use crate::tape::{bytes_to_tape, Tape};
use crate::util::DIALECTS;

pub struct Decoded {
    pub property: &'static str,
    pub check: &'static str,
    pub case: Value,
    pub outcome: Outcome,
}

/// (target, property, name of the check a saved failure is replayed under)
pub const TARGETS: &[(&str, &str, &str)] = &[
    ("lex_tile", "C17", "fuzz-lex_tile"),
    ("fmt_rt", "C14", "fuzz-fmt_rt"),
    ("staged", "C15", "fuzz-staged"),
    ("src_stages", "C12", "fuzz-src_stages"),
    ("json_pl", "C12", "fuzz-json_pl"),
    ("json_rq", "C12", "fuzz-json_rq"),
    ("err_span", "C13", "fuzz-source"),
    ("tape_c01", "C01", "fuzz-tape"),
    ("tape_c16", "C16", "fuzz-tape"),
    ("tape_c10", "C10", "fuzz-tape"),
];

pub fn target_info(target: &str) -> Option<(&'static str, &'static str)> {
    TARGETS.iter().find(|t| t.0 == target).map(|t| (t.1, t.2))
}

fn known_for(property: &'static str) -> &'static Known {
    static CELLS: OnceLock<std::sync::Mutex<std::collections::BTreeMap<&'static str, &'static Known>>> = OnceLock::new();
    let m = CELLS.get_or_init(Default::default);
    let mut m = m.lock().unwrap();
    m.entry(property).or_insert_with(|| Box::leak(Box::new(Known::load(property))))
}

/// Inputs that would only re-find a recorded process-killing defect (stack exhaustion on deep
/// nesting / long chains, the unbounded `import` recursion) or the recorded super-polynomial
/// parse times are not driven in-process: they would end the campaign. The ladder and the
/// isolated workers of C12 keep exercising them.
pub fn shallow_source(src: &str) -> bool {
    if src.len() > 4096 || src.contains("import") {
        return false;
    }
    let (mut depth, mut max_depth) = (0i32, 0i32);
    for ch in src.chars() {
        match ch {
            '(' | '[' | '{' => {
                depth += 1;
                max_depth = max_depth.max(depth);
            }
            ')' | ']' | '}' => depth -= 1,
            _ => {}
        }
    }
    let minus_run = src
        .split(|c: char| c != '-' && c != ' ' && c != '!' && c != '+')
        .map(|r| r.chars().filter(|c| *c != ' ').count())
        .max()
        .unwrap_or(0);
    // chains of binary operators / pipeline steps recurse once per element (ladder kinds `add`,
    // `pipeline`, `lets` overflow from 1024 elements on an 8 MiB stack)
    let ops = src.matches(['+', '|', '\n']).count();
    max_depth <= 10 && minus_run <= 10 && src.matches("case").count() <= 6 && ops <= 300
}

fn resolves(src: &str) -> bool {
    matches!(crate::runner::catch(|| prqlc::prql_to_pl(src).and_then(prqlc::pl_to_rq)), Ok(Ok(_)))
}

fn utf8(data: &[u8]) -> Option<&str> {
    std::str::from_utf8(data).ok()
}

pub fn decode_and_judge(target: &str, data: &[u8]) -> Option<Decoded> {
    let (property, check) = target_info(target)?;
    let known = known_for(property);
    let d = |case: Value, outcome: Outcome| Some(Decoded { property, check, case, outcome });
    match target {
        "lex_tile" => {
            let s = utf8(data)?;
            d(json!({"source": s}), c17::outcome(s, known))
        }
        "fmt_rt" => {
            let s = utf8(data)?;
            if !shallow_source(s) {
                return None;
            }
            // domain: programs the resolver accepts (what a user would keep in a file and run
            // `prqlc fmt` on); text that merely parses is left to the proptest streams' printed
            // programs. This keeps the campaign out of the formatter's handling of parse trees no
            // meaningful program has (statement-level lambdas, calls of literals ...).
            if !resolves(s) {
                return None;
            }
            let c = c14::Case { source: s.to_string() };
            let o = c14::check(&c, known);
            d(serde_json::to_value(&c).ok()?, o)
        }
        "staged" => {
            let (h, rest) = data.split_first()?;
            let s = utf8(rest)?;
            if !shallow_source(s) {
                return None;
            }
            let n = DIALECTS.len();
            let k = (*h as usize) % (2 * (n + 1));
            let c = c15::Case {
                source: s.to_string(),
                dialect: if k % (n + 1) == n { None } else { Some(k % (n + 1)) },
                format: k > n,
            };
            let o = c15::check(&c, known);
            d(serde_json::to_value(&c).ok()?, o)
        }
        "src_stages" | "json_pl" | "json_rq" => {
            let (h, rest) = data.split_first()?;
            let s = utf8(rest)?;
            let kind = match target {
                "src_stages" => "source",
                "json_pl" => "pl-json",
                _ => "rq-json",
            };
            if kind == "source" && !shallow_source(s) {
                return None;
            }
            if kind != "source" && s.len() > 1 << 16 {
                return None;
            }
            let c = c12::Case { kind: kind.into(), input: s.to_string(), dialect: (*h as usize) % DIALECTS.len() };
            let o = c12::check_in_process(&c, known);
            d(serde_json::to_value(&c).ok()?, o)
        }
        "err_span" => {
            let s = utf8(data)?;
            if !shallow_source(s) {
                return None;
            }
            d(json!({"source": s}), c13::check_source(s, known))
        }
        "tape_c01" => {
            let words = bytes_to_tape(data);
            let mut t = Tape::new(&words);
            let c = c01::gen_case(&mut t, crate::model::gen::GenCfg::general());
            let o = c01::check(&c, known);
            d(serde_json::to_value(&c).ok()?, o)
        }
        "tape_c16" => {
            let words = bytes_to_tape(data);
            let mut t = Tape::new(&words);
            let c = c16::gen_case(&mut t);
            let o = c16::check(&c, known);
            d(serde_json::to_value(&c).ok()?, o)
        }
        "tape_c10" => {
            let words = bytes_to_tape(data);
            let mut t = Tape::new(&words);
            let c = c10::gen_case(&mut t);
            let o = c10::check(&c, known);
            d(serde_json::to_value(&c).ok()?, o)
        }
        _ => None,
    }
}

/// Entry point of every libFuzzer target.
pub fn fuzz_entry(target: &str, data: &[u8]) {
    static HOOK: OnceLock<()> = OnceLock::new();
    // libfuzzer-sys installs a hook that aborts on every panic; ours records the location and
    // lets `catch` unwind, and still calls the aborting hook for panics outside `catch`.
    HOOK.get_or_init(crate::runner::install_panic_hook);
    let Some(dec) = decode_and_judge(target, data) else { return };
    if let Verdict::Fail(what, _) = &dec.outcome.verdict {
        eprintln!("FUZZ-FAIL target={target} property={} what={what}", dec.property);
        std::process::abort();
    }
}
