pub mod ast;
pub mod eval;
pub mod exec;
pub mod gen;
pub mod print;
pub mod val;
pub mod lexdecor;
