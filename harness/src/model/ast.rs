//! Abstract PRQL programs of the relational core. Column references are resolved by the
//! generator (index into the frame at that point) and carry the text to print, so the reference
//! interpreter needs no name resolver of its own and shares nothing with prqlc's.

use serde::{Deserialize, Serialize};

use super::val::{Ty, Val};

#[derive(Clone, Copy, Debug, PartialEq, Eq, Hash, Serialize, Deserialize)]
pub enum BinOp {
    Pow,
    Mul,
    DivF,
    DivI,
    Mod,
    Add,
    Sub,
    Eq,
    Ne,
    Lt,
    Gt,
    Lte,
    Gte,
    Coalesce,
    And,
    Or,
}

pub const ALL_BINOPS: &[BinOp] = &[
    BinOp::Pow,
    BinOp::Mul,
    BinOp::DivF,
    BinOp::DivI,
    BinOp::Mod,
    BinOp::Add,
    BinOp::Sub,
    BinOp::Eq,
    BinOp::Ne,
    BinOp::Lt,
    BinOp::Gt,
    BinOp::Lte,
    BinOp::Gte,
    BinOp::Coalesce,
    BinOp::And,
    BinOp::Or,
];

impl BinOp {
    pub fn sym(&self) -> &'static str {
        match self {
            BinOp::Pow => "**",
            BinOp::Mul => "*",
            BinOp::DivF => "/",
            BinOp::DivI => "//",
            BinOp::Mod => "%",
            BinOp::Add => "+",
            BinOp::Sub => "-",
            BinOp::Eq => "==",
            BinOp::Ne => "!=",
            BinOp::Lt => "<",
            BinOp::Gt => ">",
            BinOp::Lte => "<=",
            BinOp::Gte => ">=",
            BinOp::Coalesce => "??",
            BinOp::And => "&&",
            BinOp::Or => "||",
        }
    }
    /// Precedence level of the documented table (smaller binds tighter).
    pub fn level(&self) -> u8 {
        match self {
            BinOp::Pow => 4,
            BinOp::Mul | BinOp::DivF | BinOp::DivI | BinOp::Mod => 5,
            BinOp::Add | BinOp::Sub => 6,
            BinOp::Eq | BinOp::Ne | BinOp::Lt | BinOp::Gt | BinOp::Lte | BinOp::Gte => 7,
            BinOp::Coalesce => 8,
            BinOp::And => 9,
            BinOp::Or => 10,
        }
    }
    pub fn right_assoc(&self) -> bool {
        matches!(self, BinOp::Pow)
    }
    pub fn is_compare(&self) -> bool {
        self.level() == 7
    }
}

#[derive(Clone, Copy, Debug, PartialEq, Eq, Hash, Serialize, Deserialize)]
pub enum UnOp {
    Neg,
    Pos,
    Not,
}

impl UnOp {
    pub fn sym(&self) -> &'static str {
        match self {
            UnOp::Neg => "-",
            UnOp::Pos => "+",
            UnOp::Not => "!",
        }
    }
}

#[derive(Clone, Debug, PartialEq, Eq, Hash, Serialize, Deserialize)]
pub struct ColRef {
    pub idx: usize,
    pub text: String,
}

#[derive(Clone, Copy, Debug, PartialEq, Eq, Hash, Serialize, Deserialize)]
pub enum AggFn {
    Sum,
    Min,
    Max,
    Average,
    Count,
    CountDistinct,
    Any,
    All,
}

impl AggFn {
    pub fn name(&self) -> &'static str {
        match self {
            AggFn::Sum => "sum",
            AggFn::Min => "min",
            AggFn::Max => "max",
            AggFn::Average => "average",
            AggFn::Count => "count",
            AggFn::CountDistinct => "count_distinct",
            AggFn::Any => "any",
            AggFn::All => "all",
        }
    }
}

#[derive(Clone, Copy, Debug, PartialEq, Eq, Hash, Serialize, Deserialize)]
pub enum WinFn {
    Lag,
    Lead,
    First,
    Last,
    Rank,
    RankDense,
    RowNumber,
}

impl WinFn {
    pub fn name(&self) -> &'static str {
        match self {
            WinFn::Lag => "lag",
            WinFn::Lead => "lead",
            WinFn::First => "first",
            WinFn::Last => "last",
            WinFn::Rank => "rank",
            WinFn::RankDense => "rank_dense",
            WinFn::RowNumber => "row_number",
        }
    }
}

#[derive(Clone, Debug, Serialize, Deserialize)]
pub enum FPart {
    Text(String),
    Expr(Expr),
}

#[derive(Clone, Copy, Debug, PartialEq, Eq, Hash, Serialize, Deserialize)]
pub enum CallStyle {
    Positional,
    /// last positional argument piped in: `(x | f a)`
    Piped,
}

#[derive(Clone, Debug, Serialize, Deserialize)]
pub enum Expr {
    Col(ColRef),
    Lit(Val),
    Param(usize, String),
    Bin(BinOp, Box<Expr>, Box<Expr>),
    Un(UnOp, Box<Expr>),
    /// explicit (possibly redundant) parentheses; meaning = inner
    Paren(Box<Expr>),
    /// case [c1 => v1, ...]; no branch true => null
    Case(Vec<(Expr, Expr)>),
    /// (x | in lo..hi), bounds are literals, inclusive, either may be open
    In(Box<Expr>, Option<Box<Expr>>, Option<Box<Expr>>),
    FStr(Vec<FPart>),
    /// call of user function `funcs[func]`; positional args in declaration order, then named
    Call {
        func: usize,
        args: Vec<Expr>,
        named: Vec<(String, Expr)>,
        style: CallStyle,
    },
    Agg(AggFn, Box<Expr>),
    Win(WinFn, Vec<Expr>),
}

impl Expr {
    pub fn col(idx: usize, text: &str) -> Expr {
        Expr::Col(ColRef {
            idx,
            text: text.to_string(),
        })
    }
    pub fn int(i: i64) -> Expr {
        if i < 0 {
            Expr::Un(UnOp::Neg, Box::new(Expr::Lit(Val::Int(-i))))
        } else {
            Expr::Lit(Val::Int(i))
        }
    }
    pub fn bin(op: BinOp, l: Expr, r: Expr) -> Expr {
        Expr::Bin(op, Box::new(l), Box::new(r))
    }
    pub fn depth(&self) -> usize {
        match self {
            Expr::Bin(_, l, r) => 1 + l.depth().max(r.depth()),
            Expr::Un(_, e) => 1 + e.depth(),
            Expr::Paren(e) => e.depth(),
            Expr::Case(bs) => {
                1 + bs
                    .iter()
                    .map(|(c, v)| c.depth().max(v.depth()))
                    .max()
                    .unwrap_or(0)
            }
            Expr::In(e, _, _) => 1 + e.depth(),
            Expr::Call { args, .. } => 1 + args.iter().map(|a| a.depth()).max().unwrap_or(0),
            Expr::Agg(_, e) => 1 + e.depth(),
            Expr::Win(_, a) => 1 + a.iter().map(|a| a.depth()).max().unwrap_or(0),
            _ => 0,
        }
    }
    pub fn walk(&self, f: &mut dyn FnMut(&Expr)) {
        f(self);
        match self {
            Expr::Bin(_, l, r) => {
                l.walk(f);
                r.walk(f);
            }
            Expr::Un(_, e) | Expr::Paren(e) | Expr::Agg(_, e) => e.walk(f),
            Expr::Case(bs) => {
                for (c, v) in bs {
                    c.walk(f);
                    v.walk(f);
                }
            }
            Expr::In(e, lo, hi) => {
                e.walk(f);
                if let Some(l) = lo {
                    l.walk(f)
                }
                if let Some(h) = hi {
                    h.walk(f)
                }
            }
            Expr::FStr(ps) => {
                for p in ps {
                    if let FPart::Expr(e) = p {
                        e.walk(f)
                    }
                }
            }
            Expr::Call { args, named, .. } => {
                for a in args {
                    a.walk(f)
                }
                for (_, a) in named {
                    a.walk(f)
                }
            }
            Expr::Win(_, a) => {
                for a in a {
                    a.walk(f)
                }
            }
            _ => {}
        }
    }
    pub fn has_window(&self) -> bool {
        let mut w = false;
        self.walk(&mut |e| {
            if matches!(e, Expr::Agg(..) | Expr::Win(..)) {
                w = true
            }
        });
        w
    }
}

#[derive(Clone, Debug, Serialize, Deserialize)]
pub struct FuncParam {
    pub name: String,
    pub default: Option<Expr>,
}

#[derive(Clone, Debug, Serialize, Deserialize)]
pub struct FuncDef {
    pub name: String,
    /// positional parameters first, then named ones (with default)
    pub params: Vec<FuncParam>,
    pub body: Expr,
    /// optional module path the function lives in (`module m { let f = ... }` => "m")
    pub module: Option<String>,
}

#[derive(Clone, Debug, Serialize, Deserialize)]
pub struct Item {
    pub alias: Option<String>,
    pub expr: Expr,
}

#[derive(Clone, Debug, Serialize, Deserialize)]
pub struct SortKey {
    pub desc: bool,
    /// print an explicit `+` for ascending
    pub explicit_plus: bool,
    pub expr: Expr,
}

#[derive(Clone, Copy, Debug, PartialEq, Eq, Hash, Serialize, Deserialize)]
pub enum Side {
    Inner,
    Left,
    Right,
    Full,
}

#[derive(Clone, Debug, Serialize, Deserialize)]
pub enum JoinCond {
    /// expression over the concatenated frame left ++ right
    Expr(Expr),
    /// `(==name)` for each listed pair (left idx, right idx in the concatenated frame, name)
    SelfEq(Vec<(usize, usize, String)>),
}

#[derive(Clone, Copy, Debug, PartialEq, Eq, Hash, Serialize, Deserialize)]
pub enum WFrame {
    /// no `window`: whole partition
    Default,
    Rows(Option<i64>, Option<i64>),
    Range(Option<i64>, Option<i64>),
    Rolling(i64),
    Expanding,
}

#[derive(Clone, Debug, Serialize, Deserialize)]
pub enum Step {
    Select(Vec<Item>),
    SelectExcept(Vec<ColRef>),
    Derive(Vec<Item>),
    Filter(Expr),
    Sort(Vec<SortKey>),
    /// 1-based inclusive positions; `take n` = (Some(1)/None, Some(n)) with `single`
    Take {
        lo: Option<i64>,
        hi: Option<i64>,
        single: bool,
    },
    Join {
        side: Side,
        right: Box<Source>,
        cond: JoinCond,
    },
    Aggregate(Vec<Item>),
    Group {
        keys: Vec<ColRef>,
        inner: Vec<Step>,
    },
    Window {
        frame: WFrame,
        inner: Vec<Step>,
    },
    Append(Box<Source>),
}

#[derive(Clone, Debug, Serialize, Deserialize)]
pub enum SrcKind {
    Table(String),
    Let(usize),
    Literal {
        cols: Vec<String>,
        rows: Vec<Vec<Val>>,
    },
    Sub(Box<Pipeline>),
}

#[derive(Clone, Debug, Serialize, Deserialize)]
pub struct Source {
    pub kind: SrcKind,
    pub alias: Option<String>,
}

#[derive(Clone, Debug, Serialize, Deserialize)]
pub struct Pipeline {
    pub source: Source,
    pub steps: Vec<Step>,
}

#[derive(Clone, Debug, Serialize, Deserialize)]
pub struct LetDef {
    pub name: String,
    pub pipe: Pipeline,
    /// `from .. | into name` instead of `let name = (...)`
    pub into: bool,
    pub module: Option<String>,
}

#[derive(Clone, Debug, Serialize, Deserialize, Default)]
pub struct Surface {
    /// use newlines between transforms instead of ` | `
    pub newlines: bool,
    /// parenthesise an operand of the same precedence level also on the side where the documented
    /// associativity makes it redundant: `(a - b) - c`, `(a ?? b) ?? c`
    #[serde(default)]
    pub redundant_parens: bool,
    /// inside a module, refer to declarations of the same module by their bare name
    #[serde(default)]
    pub bare_in_module: bool,
}

#[derive(Clone, Debug, Serialize, Deserialize)]
pub struct Prog {
    pub funcs: Vec<FuncDef>,
    pub lets: Vec<LetDef>,
    pub main: Pipeline,
    pub surface: Surface,
}

#[derive(Clone, Debug, Serialize, Deserialize)]
pub struct Column {
    pub name: String,
    pub ty: Ty,
}

#[derive(Clone, Debug, Serialize, Deserialize)]
pub struct Table {
    pub name: String,
    pub cols: Vec<Column>,
    pub rows: Vec<Vec<Val>>,
}

#[derive(Clone, Debug, Serialize, Deserialize, Default)]
pub struct Db {
    pub tables: Vec<Table>,
}

impl Db {
    pub fn table(&self, name: &str) -> Option<&Table> {
        self.tables.iter().find(|t| t.name == name)
    }
}

/// true if some step evaluates a window function (whose implicit ORDER BY is the sort in effect)
pub fn steps_have_window(steps: &[Step]) -> bool {
    steps.iter().any(|s| match s {
        Step::Select(items) | Step::Derive(items) => items.iter().any(|i| i.expr.has_window()),
        Step::Filter(e) => e.has_window(),
        Step::Sort(keys) => keys.iter().any(|k| k.expr.has_window()),
        Step::Window { .. } => true,
        Step::Group { inner, .. } => inner.iter().any(|s| !matches!(s, Step::Aggregate(_))),
        Step::Join { right, .. } | Step::Append(right) => match &right.kind {
            SrcKind::Sub(p) => steps_have_window(&p.steps),
            _ => false,
        },
        _ => false,
    })
}

impl Prog {
    pub fn has_window(&self) -> bool {
        steps_have_window(&self.main.steps) || self.lets.iter().any(|l| steps_have_window(&l.pipe.steps))
    }
}
