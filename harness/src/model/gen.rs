//! Scope- and type-directed decoder from a choice tape to (database instance, abstract program).
//! Construction, not rejection: only references that resolve, comparisons between like types,
//! `take` only where the order makes it deterministic (otherwise the interpreter flags the
//! case ambiguous and it is counted, not judged).

use super::ast::*;
use super::print::ident;
use super::val::{Ty, Val};
use crate::tape::Tape;

#[derive(Clone, Debug)]
pub struct FCol {
    pub name: Option<String>,
    pub rel: Option<String>,
    pub ty: Ty,
    /// unique and non-null over the rows (a key)
    pub unique: bool,
    pub nullable: bool,
    /// ids of the aggregates whose *values* this column depends on. If no surviving column
    /// depends on an aggregate, the compiler prunes it and loses its cardinality effect
    /// (finding C01-aggregate-pruned), so the generator keeps every aggregate alive.
    pub deps: Vec<u32>,
    /// defined by an expression without column references (or one that may fold to a constant)
    pub is_const: bool,
    /// defined by an expression (inlined by the compiler where it is used)
    pub computed: bool,
    /// defined with a window / aggregation function outside aggregate
    pub windowed: bool,
}

#[derive(Clone, Debug, Default)]
pub struct Frame {
    pub cols: Vec<FCol>,
    /// relations in scope whose columns the compiler does not know (`from t` with no select)
    pub wild_rels: Vec<String>,
}

#[derive(Clone, Debug, Default)]
pub struct Ord {
    /// names of the columns the sort in effect refers to
    pub key_names: Vec<String>,
    pub ordered: bool,
    pub total: bool,
    /// the sort in effect has exactly one key and it is numeric & non-null
    pub one_numeric_key: bool,
    /// a later select dropped a column the sort in effect refers to
    pub key_dropped: bool,
    /// a projection / join / windowed step happened since the sort (a take after that hits
    /// finding C07-sort-column-pruned-before-take)
    pub dirty: bool,
    /// some key of the sort in effect is a computed expression
    pub computed_key: bool,
}

#[derive(Clone, Copy, Debug, PartialEq, Eq)]
pub enum Bias {
    General,
    Sort,
    Window,
    Frame,
}

#[derive(Clone, Debug)]
pub struct GenCfg {
    pub bias: Bias,
    pub max_steps: usize,
    pub hazard_names: bool,
    pub allow_lets: bool,
    pub allow_funcs: bool,
    /// f-strings, which need CONCAT under `generic` (not executable on SQLite with NULLs)
    pub allow_fstr: bool,
    pub allow_wild: bool,
    pub allow_append: bool,
    /// hazardous constructs that are excluded by construction unless listed here; each one
    /// corresponds to a recorded finding (see known_findings.json) and is exercised by a probe:
    ///  dup_select      the same column selected twice / identity shadow (C05-same-column-merged)
    ///  dup_names       same-named columns of a join left un-aliased (C05-dedup-select-items)
    ///  open_take       `take a..` with a > 1 (C07-offset-without-limit)
    ///  drop_agg        every aggregate-derived column dropped later (C01-aggregate-pruned)
    ///  wild_helpers    helper-column constructs in programs with wildcard relations (C05-wildcard-helper-leak)
    ///  append_free     append whose top is sorted / a let-table, or followed by column-dropping steps (C01-append-pruning)
    ///  int_divi        `//` on integers (C02-sqlite-divi-small-int)
    ///  unframed_last   `last` without an explicit frame (C04-last-default-frame)
    ///  sorted_let      a let-table / sub-pipeline that ends with a sort in effect (C07-sorted-cte-order-by-scope)
    ///  const_null_fold `case` without default whose conditions are all constant (C02-const-null-fold)
    ///  shadow          `derive {a = f(a)}` name shadowing (C05-shadowed-column-dropped, C04-rank-shadow)
    ///  const_group_key grouping by a constant column (C07-group-by-constant)
    ///  compound_agg    arithmetic over aggregation functions inside aggregate (C01-take-compound-aggregate)
    ///  win_over_win    window function over a windowed column (C07-window-over-window-sort-scope)
    ///  sorted_group_derive  `sort | take | group k (derive ..)` (C03-take-before-group-loses-sort)
    ///  sort_key_rename select that renames a column while a sort is in effect (C12-sort-key-rename-panic)
    ///  dropped_key_join  a select drops a sort key, then a join follows (C03-dropped-sort-key-join)
    ///  wild_let        a let-table with a wildcard frame (C07-wildcard-let-derive-name)
    ///  const_fold      boolean literals inside logic / case conditions (fold to an alias of another column)
    ///  group_take_sort_agg  take inside group, later sort, then aggregate (C12-group-take-sort-aggregate)
    ///  resort_after_take  a new sort after a take (C03-take-sort-take-merged)
    ///  sort_by_windowed   sort key that is a windowed column (C07-sort-by-windowed-scope)
    ///  take_far_from_sort  projection / join / windowed step between a sort and its take (C07-sort-column-pruned-before-take)
    ///  sorted_aggregate  aggregate while a sort is in effect (C04-stale-sort-after-aggregate)
    ///  multi_take_agg  two takes, then aggregate/group (C07-sort-column-pruned-before-take)
    ///  mul_right       `a * <expr>` with a non-atomic / computed right operand (C02-mul-right-operand-parens)
    ///  wild_except     `select !{..}` over a wildcard frame (wrong without EXCLUDE: C05-wildcard-helper-leak);
    ///                  with this hazard every program uses wildcard relations
    ///  computed_key_join  a join while a sort with a computed key is in effect (C16-computed-sort-key-lowered-into-subpipeline)
    ///  take_distinct   `take` followed by `group {all columns} (take 1)` (C01-take-then-distinct-merged)
    ///  wild_dup_join   a join of two wildcard relations that share a column name, not projected afterwards
    ///                  (C07-wildcard-join-duplicate-names); implied by the wild_except hazards
    ///  wild_except_twice   a second `select !{..}` over a wildcard frame (C05-consecutive-exclusions-forget-first)
    ///  wild_except_sorted  `select !{..}` over a wildcard frame while a sort is in effect (C05-excluded-sort-key-returns)
    pub hazards: Vec<&'static str>,
    /// `/` between two integer-typed operands (excluded under `generic`, whose `/` is the engine's)
    pub int_divf: bool,
    /// never print a float literal with an integral value (finding C14-float-loses-fraction)
    pub no_integral_floats: bool,
    /// prefer `append` and projections after it (C05's set-operation search)
    pub append_boost: bool,
    /// step kinds the main pipeline generates first, in order (3 sort, 4 take, 8 window ...);
    /// a kind that is not admissible at its turn ends the script
    pub script: Vec<usize>,
}

impl GenCfg {
    pub fn general() -> Self {
        GenCfg {
            bias: Bias::General,
            max_steps: 7,
            hazard_names: false,
            allow_lets: true,
            allow_funcs: true,
            allow_fstr: true,
            allow_wild: true,
            allow_append: true,
            hazards: vec![],
            int_divf: true,
            no_integral_floats: false,
            append_boost: false,
            script: vec![],
        }
    }
}

pub struct Gen<'t, 'd> {
    pub t: &'t mut Tape<'d>,
    pub cfg: GenCfg,
    pub db: Db,
    pub funcs: Vec<FuncDef>,
    pub lets: Vec<LetDef>,
    pub let_frames: Vec<(Frame, Ord)>,
    fresh: usize,
    rel_fresh: usize,
    pub names: Names,
    /// this program uses relations whose columns the compiler does not know (`from t` unprojected)
    pub wild_prog: bool,
    /// number of `select !{..}` steps over a wildcard frame so far
    pub n_wild_except: usize,
    /// the append just generated is to be emitted twice
    pub dup_append: bool,
    /// (sorted let-table, second let-table reading it): the main pipeline reads the first, takes a
    /// slice and joins the second, so that one sorted relation has two live readers
    pub main_scaffold: Option<(usize, usize)>,
    /// step kinds the main pipeline generates next, in order (dropped when one is not admissible)
    pub forced: Vec<usize>,
    /// the bottom of the last append reads a let-table
    pub append_let_bottom: bool,
    pub force_right_let: Option<usize>,
    /// see gen_lets
    pub module_scheme: bool,
    /// a sort was generated after a take of the current pipeline
    pub resorted_after_take: bool,
    /// 2 = the next step is a filter, 1 = the next step is the distinct idiom (set after a windowed
    /// derive: window, then filter, then de-duplication of the whole frame)
    pub win_chain: u8,
    cur_src_let: bool,
    after_append: bool,
    in_sub: bool,
    simple_so_far: bool,
    agg_counter: u32,
    cur_ordered: bool,
    had_group_take: bool,
    had_take: bool,
    ntakes: usize,
    /// hazards actually generated in this program
    pub touched: Vec<&'static str>,
}

/// name pools (plain by default; C09 swaps in hazardous ones)
#[derive(Clone, Debug)]
pub struct Names {
    pub tables: Vec<String>,
    pub aliases: Vec<String>,
    pub rel_aliases: Vec<String>,
    /// display names of the key column and of the 7 catalogue columns (a b k s x f u)
    pub id: String,
    pub cols: Vec<String>,
    pub lets: Vec<String>,
}

pub const HAZARD_NAMES: &[&str] = &[
    "select", "order", "group", "from", "table", "user", "a b", "A", "Mixed", "é", "naïve col",
    "x\"y", "it's", "1st", "table_0", "table_1", "table_2", "_expr_0", "_expr_1", "_expr_2", "where",
    "having", "end", "limit", "offset", "union", "key", "value", "UPPER", "current_timestamp", "current_date",
    "current_user", "assert_rows_modified", "localtimestamp", "session_user", "default", "primary", "references",
    "interval", "timestamp", "natural", "using", "window", "partition", "over", "rows", "range", "distinct", "case",
    "a\\b", "x\\ny", "C:\\t", "tail\\",
    // words reserved by one dialect only (Redshift): the decision to quote depends on the dialect
    "tag", "identity", "system", "snapshot", "oid", "encode", "delta", "backup", "offline", "wallet", "permissions",
    "credentials", "explicit", "deflate", "gzip", "lzo",
];

/// words reserved in Amazon Redshift and in no other dialect of the compiler (subset; AWS reserved-words list)
pub const REDSHIFT_ONLY_RESERVED: &[&str] = &[
    "tag", "identity", "system", "snapshot", "oid", "encode", "delta", "backup", "offline", "wallet", "permissions",
    "credentials", "explicit", "deflate", "gzip", "lzo",
];

impl Names {
    pub fn plain() -> Names {
        Names {
            tables: vec!["t1".into(), "t2".into(), "t3".into(), "t4".into()],
            aliases: (0..40).map(|i| format!("c{i}")).collect(),
            rel_aliases: (0..12).map(|i| format!("r{i}")).collect(),
            id: "id".into(),
            cols: COLS.iter().map(|(n, _)| n.to_string()).collect(),
            lets: (0..4).map(|i| format!("l{i}")).collect(),
        }
    }
}

/// column catalogue: name -> type (shared across tables on purpose)
const COLS: &[(&str, Ty)] = &[
    ("a", Ty::Int),
    ("b", Ty::Int),
    ("k", Ty::Int),
    ("s", Ty::Text),
    ("x", Ty::Float),
    ("f", Ty::Bool),
    ("u", Ty::Text),
];

const TEXTS: &[&str] = &["a", "b", "", "A", "é", "ab"];

fn gen_val(t: &mut Tape, ty: Ty, nullable: bool, lowcard: bool) -> Val {
    if nullable && t.chance(1, 6) {
        return Val::Null;
    }
    match ty {
        Ty::Int => {
            if lowcard {
                Val::Int(t.range(0, 2))
            } else {
                // 0 first so that an exhausted tape yields the simplest value
                let v = t.choose(14) as i64;
                Val::Int(if v <= 9 { v } else { 9 - v }) // 0..9, -1..-4
            }
        }
        Ty::Float => {
            let v = t.choose(25) as i64 - 8; // -8..16 quarters
            Val::Float(v as f64 / 4.0)
        }
        Ty::Text => Val::Text(t.pick(TEXTS).to_string()),
        Ty::Bool => Val::Bool(t.chance(1, 2)),
    }
}

impl<'t, 'd> Gen<'t, 'd> {
    pub fn new(t: &'t mut Tape<'d>, cfg: GenCfg) -> Self {
        Gen {
            t,
            cfg,
            db: Db::default(),
            funcs: vec![],
            lets: vec![],
            let_frames: vec![],
            fresh: 0,
            rel_fresh: 0,
            names: Names::plain(),
            wild_prog: false,
            n_wild_except: 0,
            dup_append: false,
            main_scaffold: None,
            forced: vec![],
            append_let_bottom: false,
            force_right_let: None,
            module_scheme: false,
            resorted_after_take: false,
            win_chain: 0,
            cur_src_let: false,
            after_append: false,
            in_sub: false,
            simple_so_far: true,
            agg_counter: 0,
            cur_ordered: false,
            had_group_take: false,
            had_take: false,
            ntakes: 0,
            touched: vec![],
        }
    }

    pub fn haz(&self, h: &str) -> bool {
        self.cfg.hazards.iter().any(|x| *x == h)
    }

    /// hazards under which every program uses wildcard relations and joins of two wildcard
    /// relations stay un-projected
    fn haz_wild_join(&self) -> bool {
        self.haz_wild_except() || self.haz("wild_dup_join")
    }

    fn haz_wild_except(&self) -> bool {
        self.haz("wild_except") || self.haz("wild_except_twice") || self.haz("wild_except_sorted")
    }

    fn touch(&mut self, h: &'static str) {
        if !self.touched.contains(&h) {
            self.touched.push(h);
        }
    }

    /// helper-column constructs are kept out of programs with wildcard relations
    fn helpers_ok(&self) -> bool {
        !self.wild_prog || self.haz("wild_helpers")
    }

    pub fn with_names(mut self, n: Names) -> Self {
        self.names = n;
        self
    }

    fn fresh_alias(&mut self) -> String {
        let i = self.fresh;
        self.fresh += 1;
        self.names
            .aliases
            .get(i)
            .cloned()
            .unwrap_or_else(|| format!("c{i}"))
    }

    fn fresh_rel(&mut self) -> String {
        let i = self.rel_fresh;
        self.rel_fresh += 1;
        self.names
            .rel_aliases
            .get(i)
            .cloned()
            .unwrap_or_else(|| format!("r{i}"))
    }

    // ------------------------------------------------------------------ database

    pub fn gen_db(&mut self) {
        let ntab = 2 + self.t.choose(2);
        for ti in 0..ntab {
            let name = self.names.tables[ti].clone();
            // table kinds: 0 keyed, 1 keyed, 2 duplicates/no key (sometimes)
            let keyed = !(ti == ntab - 1 && self.t.chance(1, 3));
            let mut cols: Vec<Column> = vec![];
            if keyed {
                cols.push(Column {
                    name: self.names.id.clone(),
                    ty: Ty::Int,
                });
            }
            let extra = 2 + self.t.choose(3);
            let mut pool: Vec<usize> = (0..COLS.len()).collect();
            for _ in 0..extra {
                if pool.is_empty() {
                    break;
                }
                // bias to the first (numeric) columns
                let j = self.t.weighted(&vec![3u32; pool.len()][..]);
                let ci = pool.remove(j);
                cols.push(Column {
                    name: self.names.cols[ci].clone(),
                    ty: COLS[ci].1,
                });
            }
            let nrows = if self.t.chance(1, 10) {
                0
            } else {
                1 + self.t.choose(6)
            };
            let mut rows = vec![];
            for r in 0..nrows {
                let mut row = vec![];
                for c in &cols {
                    if c.name == self.names.id {
                        row.push(Val::Int(r as i64 + 1));
                    } else {
                        row.push(gen_val(self.t, c.ty, true, c.name == self.names.cols[2]));
                    }
                }
                rows.push(row);
            }
            if !keyed && rows.len() >= 2 && self.t.chance(1, 2) {
                // a true duplicate row
                let d = rows[0].clone();
                rows.push(d);
            }
            self.db.tables.push(Table { name, cols, rows });
        }
    }

    pub fn table_frame(&self, tname: &str, rel: &str, wild: bool) -> Frame {
        let t = self.db.table(tname).unwrap();
        Frame {
            cols: t
                .cols
                .iter()
                .map(|c| FCol {
                    name: Some(c.name.clone()),
                    rel: Some(rel.to_string()),
                    ty: c.ty,
                    unique: c.name == self.names.id,
                    nullable: c.name != self.names.id,
                    deps: vec![],
                    is_const: false,
                    computed: false,
                    windowed: false,
                })
                .collect(),
            wild_rels: if wild { vec![rel.to_string()] } else { vec![] },
        }
    }

    // ------------------------------------------------------------------ references

    /// Text by which column `idx` can be referenced in `frame`, if any.
    pub fn ref_text(&mut self, frame: &Frame, idx: usize) -> Option<String> {
        let c = &frame.cols[idx];
        let name = c.name.as_ref()?;
        let same_name = frame
            .cols
            .iter()
            .filter(|o| o.name.as_ref() == Some(name))
            .count();
        let qualified = c.rel.as_ref().map(|r| format!("{}.{}", ident(r), ident(name)));
        let same_qual = frame
            .cols
            .iter()
            .filter(|o| o.name.as_ref() == Some(name) && o.rel == c.rel)
            .count();
        let must_qualify = same_name > 1
            || (frame.wild_rels.len() > 1
                && c.rel
                    .as_ref()
                    .map(|r| frame.wild_rels.contains(r))
                    .unwrap_or(false));
        if must_qualify {
            if same_qual == 1 {
                qualified
            } else {
                None
            }
        } else if qualified.is_some() && same_qual == 1 && self.t.chance(1, 6) {
            qualified
        } else {
            Some(ident(name))
        }
    }

    fn cols_of(&mut self, frame: &Frame, pred: &dyn Fn(&FCol) -> bool) -> Vec<(usize, String)> {
        let mut v = vec![];
        for i in 0..frame.cols.len() {
            if pred(&frame.cols[i]) {
                if let Some(t) = self.ref_text(frame, i) {
                    v.push((i, t));
                }
            }
        }
        v
    }

    fn pick_col(&mut self, frame: &Frame, ty: Ty) -> Option<Expr> {
        let v = self.cols_of(frame, &|c| c.ty == ty);
        if v.is_empty() {
            return None;
        }
        let (i, t) = v[self.t.choose(v.len())].clone();
        Some(Expr::Col(ColRef { idx: i, text: t }))
    }

    // ------------------------------------------------------------------ expressions

    fn lit(&mut self, ty: Ty) -> Expr {
        match ty {
            Ty::Int => Expr::int(self.t.range(0, 6) - if self.t.chance(1, 5) { 4 } else { 0 }),
            Ty::Float => {
                let mut q = self.t.range(1, 12);
                if self.cfg.no_integral_floats && q % 4 == 0 {
                    q += 1;
                }
                Expr::Lit(Val::Float(q as f64 / 4.0))
            }
            Ty::Text => Expr::Lit(Val::Text(self.t.pick(TEXTS).to_string())),
            Ty::Bool => Expr::Lit(Val::Bool(self.t.chance(1, 2))),
        }
    }

    fn neg(&mut self, _frame: &Frame, e: Expr) -> Expr {
        // any operand: `-(-x)`, a negated negative literal and a negated computed column used to
        // be excluded (`--` in the SQL; repaired by fix 95de4f4)
        Expr::Un(UnOp::Neg, Box::new(e))
    }

    /// literal or base-table column: an operand the compiler cannot inline into something
    /// that needs parentheses (findings C02-mul-right-operand-parens, C02-double-negation)
    fn safe_leaf(&mut self, frame: &Frame, ty: Ty) -> Expr {
        let v = self.cols_of(frame, &|c| c.ty == ty && !c.computed);
        if !v.is_empty() && !self.t.chance(1, 4) {
            let (i, t) = v[self.t.choose(v.len())].clone();
            return Expr::Col(ColRef { idx: i, text: t });
        }
        match self.lit(ty) {
            Expr::Un(_, x) => *x,
            e => e,
        }
    }

    fn nonzero_int_lit(&mut self) -> Expr {
        Expr::Lit(Val::Int(self.t.range(1, 4)))
    }

    /// scalar expression of type `ty` over `frame`
    pub fn expr(&mut self, frame: &Frame, ty: Ty, depth: usize) -> Expr {
        if depth == 0 || !self.t.chance(3, 5) {
            // leaf: prefer a column
            if !self.t.chance(1, 5) {
                if let Some(c) = self.pick_col(frame, ty) {
                    return c;
                }
            }
            if ty == Ty::Bool && !self.haz("const_fold") {
                // boolean literals fold (`true && c` -> `c`, `case [false => ..]`), which makes a
                // computed column an alias of another one (finding C05-same-column-merged family):
                // use a comparison instead
                for cty in [Ty::Int, Ty::Text, Ty::Float] {
                    if let Some(c) = self.pick_col(frame, cty) {
                        let op = *self.t.pick(&[BinOp::Eq, BinOp::Ne, BinOp::Lt, BinOp::Gte]);
                        let l = self.lit(cty);
                        return Expr::bin(op, c, l);
                    }
                }
            }
            return self.lit(ty);
        }
        let d = depth - 1;
        match ty {
            Ty::Int => match self.t.choose(9) {
                0 => {
                    let op = *self.t.pick(&[BinOp::Add, BinOp::Sub, BinOp::Mul]);
                    let l = self.expr(frame, Ty::Int, d);
                    let r = if op == BinOp::Mul && !self.haz("mul_right") {
                        self.safe_leaf(frame, Ty::Int)
                    } else {
                        if op == BinOp::Mul { self.touch("mul_right"); }
                        self.expr(frame, Ty::Int, d)
                    };
                    Expr::bin(op, l, r)
                }
                1 => Expr::bin(BinOp::Mod, self.expr(frame, Ty::Int, d), self.nonzero_int_lit()),
                2 => {
                    let e = self.expr(frame, Ty::Int, d);
                    self.neg(frame, e)
                }
                3 => Expr::bin(
                    BinOp::Coalesce,
                    self.expr(frame, Ty::Int, d),
                    self.expr(frame, Ty::Int, 0),
                ),
                4 => self.case(frame, Ty::Int, d),
                5 => self.call(frame, d).unwrap_or_else(|| self.lit(Ty::Int)),
                6 if self.haz("int_divi") => { self.touch("int_divi"); Expr::bin(
                    BinOp::DivI,
                    self.expr(frame, Ty::Int, d),
                    self.nonzero_int_lit(),
                ) }
                7 => Expr::Paren(Box::new(self.expr(frame, Ty::Int, d))),
                _ => {
                    let op = *self.t.pick(&[BinOp::Add, BinOp::Sub]);
                    Expr::bin(op, self.expr(frame, Ty::Int, d), self.lit(Ty::Int))
                }
            },
            Ty::Float => match self.t.choose(6) {
                0 => {
                    let op = *self.t.pick(&[BinOp::Add, BinOp::Sub, BinOp::Mul]);
                    let lt = if self.t.chance(1, 2) { Ty::Int } else { Ty::Float };
                    let l = self.expr(frame, lt, d);
                    let r = if op == BinOp::Mul && !self.haz("mul_right") {
                        self.safe_leaf(frame, Ty::Float)
                    } else {
                        if op == BinOp::Mul { self.touch("mul_right"); }
                        self.expr(frame, Ty::Float, d)
                    };
                    Expr::bin(op, l, r)
                }
                1 => {
                    if self.cfg.int_divf {
                        let lt = if self.t.chance(1, 2) { Ty::Int } else { Ty::Float };
                        Expr::bin(BinOp::DivF, self.expr(frame, lt, d), self.nonzero_int_lit())
                    } else {
                        // generic emits the engine's `/`: keep the dividend a REAL column or literal
                        // (a float-typed expression may still be an integer at run time, e.g. the
                        // COALESCE(.., 0) of an empty sum)
                        let l = self.safe_leaf(frame, Ty::Float);
                        Expr::bin(BinOp::DivF, l, self.nonzero_int_lit())
                    }
                }
                2 => Expr::bin(
                    BinOp::DivI,
                    self.expr(frame, Ty::Float, d),
                    self.nonzero_int_lit(),
                ),
                3 => Expr::bin(
                    BinOp::Coalesce,
                    self.expr(frame, Ty::Float, d),
                    self.lit(Ty::Float),
                ),
                4 => {
                    let e = self.expr(frame, Ty::Float, d);
                    self.neg(frame, e)
                }
                _ => Expr::bin(
                    BinOp::Pow,
                    self.expr(frame, Ty::Int, 0),
                    Expr::Lit(Val::Int(self.t.range(0, 2))),
                ),
            },
            Ty::Text => match self.t.choose(4) {
                0 if self.cfg.allow_fstr => {
                    let mut parts = vec![];
                    let n = 1 + self.t.choose(3);
                    for _ in 0..n {
                        if self.t.chance(1, 2) {
                            parts.push(FPart::Text(
                                self.t.pick(&["-", "x", " ", "{", "}}", "é", "_"]).to_string(),
                            ));
                        } else {
                            // only names may be interpolated; prefer non-nullable columns (NULL inside an
                            // f-string is left open by the reference)
                            let v = self.cols_of(frame, &|c| matches!(c.ty, Ty::Text));
                            if v.is_empty() {
                                parts.push(FPart::Text("q".into()));
                            } else {
                                let nn: Vec<&(usize, String)> = v.iter().filter(|(i, _)| !frame.cols[*i].nullable).collect();
                                let (i, text) = if !nn.is_empty() && self.t.chance(3, 4) {
                                    nn[self.t.choose(nn.len())].clone()
                                } else {
                                    v[self.t.choose(v.len())].clone()
                                };
                                parts.push(FPart::Expr(Expr::Col(ColRef { idx: i, text })));
                            }
                        }
                    }
                    // a lone `f"{c}"` is just an alias of c
                    if !parts.iter().any(|p| matches!(p, FPart::Text(_))) {
                        parts.push(FPart::Text("_".into()));
                    }
                    Expr::FStr(parts)
                }
                1 => Expr::bin(
                    BinOp::Coalesce,
                    self.expr(frame, Ty::Text, d),
                    self.lit(Ty::Text),
                ),
                2 => self.case(frame, Ty::Text, d),
                _ => self.expr(frame, Ty::Text, 0),
            },
            Ty::Bool => match self.t.choose(9) {
                8 => {
                    // a two-sided range check over one operand, bounds in either order, inclusive or not
                    let ty = if self.t.chance(3, 4) { Ty::Int } else { Ty::Float };
                    let e = self.expr(frame, ty, d.min(1));
                    let (lo, hi) = if ty == Ty::Int {
                        let lo = self.t.range(-2, 3);
                        (Expr::int(lo), Expr::int(lo + self.t.range(0, 4)))
                    } else {
                        let lo = self.t.range(-4, 6) as f64 / 2.0 + 0.25;
                        (Expr::Lit(Val::Float(lo)), Expr::Lit(Val::Float(lo + self.t.range(0, 6) as f64 / 2.0)))
                    };
                    let (ge, le) = if self.t.chance(3, 4) { (BinOp::Gte, BinOp::Lte) } else { (BinOp::Gt, BinOp::Lt) };
                    let lower = Expr::bin(ge, e.clone(), lo);
                    let upper = Expr::bin(le, e, hi);
                    if self.t.chance(1, 2) {
                        Expr::bin(BinOp::And, lower, upper)
                    } else {
                        Expr::bin(BinOp::And, upper, lower)
                    }
                }
                0 | 1 => {
                    let op = *self.t.pick(&[
                        BinOp::Eq,
                        BinOp::Ne,
                        BinOp::Lt,
                        BinOp::Gt,
                        BinOp::Lte,
                        BinOp::Gte,
                    ]);
                    let ty = *self.t.pick(&[Ty::Int, Ty::Int, Ty::Float, Ty::Text]);
                    let l = self.expr(frame, ty, d);
                    let r = if ty == Ty::Float && self.t.chance(1, 3) {
                        self.expr(frame, Ty::Int, d)
                    } else {
                        self.expr(frame, ty, d)
                    };
                    Expr::bin(op, l, r)
                }
                2 => {
                    let ty = *self.t.pick(&[Ty::Int, Ty::Text, Ty::Float, Ty::Bool]);
                    let e = self.expr(frame, ty, 0);
                    let op = if self.t.chance(1, 2) { BinOp::Eq } else { BinOp::Ne };
                    if self.t.chance(1, 4) {
                        Expr::bin(op, Expr::Lit(Val::Null), e)
                    } else {
                        Expr::bin(op, e, Expr::Lit(Val::Null))
                    }
                }
                3 => Expr::bin(
                    BinOp::And,
                    self.expr(frame, Ty::Bool, d),
                    self.expr(frame, Ty::Bool, d),
                ),
                4 => Expr::bin(
                    BinOp::Or,
                    self.expr(frame, Ty::Bool, d),
                    self.expr(frame, Ty::Bool, d),
                ),
                5 => Expr::Un(UnOp::Not, Box::new(self.expr(frame, Ty::Bool, d))),
                6 => {
                    let x = self.expr(frame, Ty::Int, d);
                    let lo = self.t.range(-2, 3);
                    let hi = lo + self.t.range(0, 4);
                    let lo_e = if self.t.chance(1, 6) { None } else { Some(Box::new(Expr::int(lo))) };
                    let hi_e = if lo_e.is_some() && self.t.chance(1, 6) {
                        None
                    } else {
                        Some(Box::new(Expr::int(hi)))
                    };
                    Expr::In(Box::new(x), lo_e, hi_e)
                }
                _ => self.expr(frame, Ty::Bool, 0),
            },
        }
    }

    fn case(&mut self, frame: &Frame, ty: Ty, d: usize) -> Expr {
        let n = 1 + self.t.choose(2);
        let mut bs = vec![];
        for _ in 0..n {
            let mut c = self.expr(frame, Ty::Bool, d);
            if Self::is_const_expr(&c) && !self.haz("const_fold") {
                for cty in [Ty::Int, Ty::Text, Ty::Float] {
                    if let Some(col) = self.pick_col(frame, cty) {
                        let l = self.lit(cty);
                        c = Expr::bin(BinOp::Eq, col, l);
                        break;
                    }
                }
            }
            bs.push((c, self.expr(frame, ty, d)));
        }
        let all_const = bs.iter().all(|(c, _)| Self::is_const_expr(c));
        let force_default = all_const && !self.haz("const_null_fold");
        if all_const && !force_default {
            self.touch("const_null_fold");
        }
        if force_default || self.t.chance(1, 2) {
            bs.push((Expr::Lit(Val::Bool(true)), self.expr(frame, ty, 0)));
        }
        Expr::Case(bs)
    }

    fn call(&mut self, frame: &Frame, d: usize) -> Option<Expr> {
        if self.funcs.is_empty() {
            return None;
        }
        let fi = self.t.choose(self.funcs.len());
        let f = self.funcs[fi].clone();
        let mut args = vec![];
        let mut named = vec![];
        for p in &f.params {
            if p.default.is_none() {
                let mut a = self.expr(frame, Ty::Int, d.min(1));
                // the argument is substituted into the body without parentheses
                // (finding C02-mul-right-operand-parens)
                let simple = match &a {
                    Expr::Col(c) => !frame.cols.get(c.idx).map(|c| c.computed).unwrap_or(true),
                    Expr::Lit(_) => true,
                    _ => false,
                };
                if !simple {
                    if self.haz("mul_right") {
                        self.touch("mul_right");
                    } else {
                        a = self.safe_leaf(frame, Ty::Int);
                    }
                }
                args.push(a);
            } else if self.t.chance(1, 2) {
                named.push((p.name.clone(), self.safe_leaf(frame, Ty::Int)));
            }
        }
        let style = if !args.is_empty() && self.t.chance(1, 3) {
            CallStyle::Piped
        } else {
            CallStyle::Positional
        };
        Some(Expr::Call {
            func: fi,
            args,
            named,
            style,
        })
    }

    pub fn gen_funcs(&mut self) {
        if !self.cfg.allow_funcs {
            return;
        }
        let n = self.t.weighted(&[5, 3, 1]);
        for i in 0..n {
            let name = format!("fn{i}");
            let mut params = vec![FuncParam {
                name: format!("p{i}a"),
                default: None,
            }];
            if self.t.chance(1, 3) {
                params.push(FuncParam {
                    name: format!("p{i}b"),
                    default: None,
                });
            }
            if self.t.chance(1, 3) {
                params.push(FuncParam {
                    name: format!("q{i}"),
                    default: Some(Expr::Lit(Val::Int(self.t.range(0, 3)))),
                });
            }
            // body: arithmetic over the parameters (ints)
            let mut body = Expr::Param(0, params[0].name.clone());
            for (pi, p) in params.iter().enumerate().skip(1) {
                let op = *self.t.pick(&[BinOp::Add, BinOp::Sub, BinOp::Mul]);
                body = Expr::bin(op, body, Expr::Param(pi, p.name.clone()));
            }
            // never the identity (an identity function makes a column an alias of another one)
            if params.len() == 1 || self.t.chance(1, 2) {
                let op = *self.t.pick(&[BinOp::Add, BinOp::Mul, BinOp::Sub]);
                body = Expr::bin(op, body, Expr::Lit(Val::Int(self.t.range(1, 3))));
            }
            self.funcs.push(FuncDef {
                name,
                params,
                body,
                module: None,
            });
        }
    }

    // ------------------------------------------------------------------ aggregates & windows

    fn agg_expr(&mut self, frame: &Frame) -> (Expr, Ty) {
        let choice = self.t.choose(8);
        let num_ty = if self.t.chance(2, 3) { Ty::Int } else { Ty::Float };
        match choice {
            0 => (
                Expr::Agg(AggFn::Sum, Box::new(self.expr(frame, num_ty, 1))),
                num_ty,
            ),
            1 => {
                let ty = *self.t.pick(&[Ty::Int, Ty::Text, Ty::Float]);
                let arg = self
                    .pick_col(frame, ty)
                    .unwrap_or_else(|| self.expr(frame, Ty::Int, 0));
                (Expr::Agg(AggFn::Count, Box::new(arg)), Ty::Int)
            }
            2 => (
                Expr::Agg(AggFn::Min, Box::new(self.expr(frame, num_ty, 1))),
                num_ty,
            ),
            3 => (
                Expr::Agg(AggFn::Max, Box::new(self.expr(frame, num_ty, 1))),
                num_ty,
            ),
            4 => (
                Expr::Agg(AggFn::Average, Box::new(self.expr(frame, num_ty, 0))),
                Ty::Float,
            ),
            5 if self.haz("compound_agg") => {
                self.touch("compound_agg");
                // arithmetic over aggregates
                let a = Expr::Agg(AggFn::Sum, Box::new(self.expr(frame, Ty::Int, 0)));
                let b = Expr::Agg(AggFn::Count, Box::new(self.expr(frame, Ty::Int, 0)));
                let op = *self.t.pick(&[BinOp::Add, BinOp::Sub, BinOp::Mul]);
                (Expr::bin(op, a, b), Ty::Int)
            }
            6 => {
                let ty = Ty::Text;
                match self.pick_col(frame, ty) {
                    Some(c) => (
                        Expr::Agg(
                            if self.t.chance(1, 2) { AggFn::Min } else { AggFn::Max },
                            Box::new(c),
                        ),
                        Ty::Text,
                    ),
                    None => (
                        Expr::Agg(AggFn::Count, Box::new(self.expr(frame, Ty::Int, 0))),
                        Ty::Int,
                    ),
                }
            }
            _ => (
                Expr::Agg(AggFn::CountDistinct, Box::new(self.expr(frame, Ty::Int, 0))),
                Ty::Int,
            ),
        }
    }

    /// window expression usable in derive/select/filter given the order state and frame kind
    fn win_expr(&mut self, frame: &Frame, ord: &Ord, wf: WFrame) -> (Expr, Ty) {
        // a window function over a windowed column (finding C07-window-over-window-sort-scope)
        let mut masked = frame.clone();
        if !self.haz("win_over_win") {
            for c in masked.cols.iter_mut() {
                if c.windowed {
                    c.name = None;
                }
            }
        } else if frame.cols.iter().any(|c| c.windowed) {
            self.touch("win_over_win");
        }
        let frame = &masked;
        let explicit_rows = matches!(wf, WFrame::Rows(..) | WFrame::Rolling(_) | WFrame::Expanding);
        let mut opts: Vec<u8> = vec![0, 1, 2, 3, 4]; // sum count min max average
        opts.push(5); // rank
        opts.push(6); // rank_dense
        if ord.total && !matches!(wf, WFrame::Range(..)) {
            opts.push(7); // row_number
            opts.push(8); // lag
            opts.push(9); // lead
            // first/last never receive a frame clause (finding C04-first-last-frame): only `first`
            // with no explicit window coincides with SQL's default frame
            if self.haz("unframed_last") {
                self.touch("unframed_last");
                opts.push(10); // first
                opts.push(11); // last
            } else if !explicit_rows && wf == WFrame::Default {
                opts.push(10);
            }
        }
        let num_ty = if self.t.chance(2, 3) { Ty::Int } else { Ty::Float };
        let c = opts[self.t.choose(opts.len())];
        let anycol = |g: &mut Self| {
            g.pick_col(frame, Ty::Int)
                .unwrap_or_else(|| Expr::Lit(Val::Int(1)))
        };
        match c {
            0 => (
                Expr::Agg(AggFn::Sum, Box::new(self.expr(frame, num_ty, 0))),
                num_ty,
            ),
            1 => (Expr::Agg(AggFn::Count, Box::new(anycol(self))), Ty::Int),
            2 => (
                Expr::Agg(AggFn::Min, Box::new(self.expr(frame, num_ty, 0))),
                num_ty,
            ),
            3 => (
                Expr::Agg(AggFn::Max, Box::new(self.expr(frame, num_ty, 0))),
                num_ty,
            ),
            4 => (
                Expr::Agg(AggFn::Average, Box::new(self.expr(frame, num_ty, 0))),
                Ty::Float,
            ),
            5 => (Expr::Win(WinFn::Rank, vec![anycol(self)]), Ty::Int),
            6 => (Expr::Win(WinFn::RankDense, vec![anycol(self)]), Ty::Int),
            7 => (Expr::Win(WinFn::RowNumber, vec![anycol(self)]), Ty::Int),
            8 | 9 => {
                let ty = *self.t.pick(&[Ty::Int, Ty::Text, Ty::Float]);
                let arg = self.pick_col(frame, ty).unwrap_or_else(|| anycol(self));
                let ty = match &arg {
                    Expr::Col(c) => frame.cols[c.idx].ty,
                    _ => Ty::Int,
                };
                let off = Expr::Lit(Val::Int(self.t.range(1, 2)));
                (
                    Expr::Win(if c == 8 { WinFn::Lag } else { WinFn::Lead }, vec![off, arg]),
                    ty,
                )
            }
            _ => {
                let ty = *self.t.pick(&[Ty::Int, Ty::Text]);
                let arg = self.pick_col(frame, ty).unwrap_or_else(|| anycol(self));
                let ty = match &arg {
                    Expr::Col(c) => frame.cols[c.idx].ty,
                    _ => Ty::Int,
                };
                (
                    Expr::Win(if c == 10 { WinFn::First } else { WinFn::Last }, vec![arg]),
                    ty,
                )
            }
        }
    }

    // ------------------------------------------------------------------ steps

    fn name_added(frame: &mut Frame, col: FCol) {
        // a (re)introduced name shadows earlier columns of the same name (observed + name-resolution.md)
        if let Some(n) = &col.name {
            for c in frame.cols.iter_mut() {
                if c.name.as_ref() == Some(n) {
                    c.name = None;
                }
            }
        }
        frame.cols.push(col);
    }

    fn is_const_in(frame: &Frame, e: &Expr) -> bool {
        if Self::is_const_expr(e) {
            return true;
        }
        // every referenced column is itself (possibly) constant
        let mut all_const = true;
        let mut any = false;
        e.walk(&mut |x| match x {
            Expr::Col(c) => {
                any = true;
                if !frame.cols.get(c.idx).map(|c| c.is_const).unwrap_or(false) {
                    all_const = false;
                }
            }
            Expr::Agg(..) | Expr::Win(..) => all_const = false,
            _ => {}
        });
        any && all_const
    }

    /// true unless the expression is certain not to fold to a constant
    fn is_const_expr(e: &Expr) -> bool {
        let mut has_col = false;
        let mut foldable = false;
        e.walk(&mut |x| match x {
            Expr::Col(_) | Expr::Agg(..) | Expr::Win(..) => has_col = true,
            Expr::Case(bs) => {
                if bs.iter().any(|(c, _)| {
                    let mut cc = true;
                    c.walk(&mut |y| {
                        if matches!(y, Expr::Col(_) | Expr::Agg(..) | Expr::Win(..)) {
                            cc = false
                        }
                    });
                    cc
                }) {
                    foldable = true;
                }
            }
            Expr::Bin(BinOp::And | BinOp::Or | BinOp::Coalesce, l, r) => {
                if matches!(**l, Expr::Lit(_)) || matches!(**r, Expr::Lit(_)) {
                    foldable = true;
                }
            }
            _ => {}
        });
        !has_col || foldable
    }

    /// aggregate ids the value of `e` depends on (references under `count` do not count:
    /// COUNT(*) ignores its argument)
    fn expr_deps(frame: &Frame, e: &Expr) -> Vec<u32> {
        // deliberately conservative: anything but a direct reference might be folded away
        match e {
            Expr::Col(c) => frame.cols.get(c.idx).map(|c| c.deps.clone()).unwrap_or_default(),
            Expr::Paren(x) => Self::expr_deps(frame, x),
            Expr::Agg(AggFn::Max | AggFn::Min | AggFn::Sum | AggFn::Average, x) => Self::expr_deps(frame, x),
            _ => vec![],
        }
    }

    fn all_deps(cols: &[FCol]) -> Vec<u32> {
        let mut out = vec![];
        for c in cols {
            for d in &c.deps {
                if !out.contains(d) {
                    out.push(*d);
                }
            }
        }
        out
    }

    fn gen_select(&mut self, frame: &mut Frame) -> Step {
        let n = 1 + self.t.choose(4);
        let mut items = vec![];
        let mut newf = Frame::default();
        let mut used: Vec<String> = vec![];
        let mut used_idx: Vec<usize> = vec![];
        for _ in 0..n {
            if self.t.chance(3, 5) {
                // plain column
                let refs = self.cols_of(frame, &|_| true);
                if refs.is_empty() {
                    continue;
                }
                let (i, text) = refs[self.t.choose(refs.len())].clone();
                if used_idx.contains(&i) {
                    if !self.haz("dup_select") {
                        continue;
                    }
                    self.touch("dup_select");
                }
                used_idx.push(i);
                let src = frame.cols[i].clone();
                let name = src.name.clone().unwrap();
                // renaming a column while a sort is in effect: finding C12-sort-key-rename-panic
                let rename_ok = !self.cur_ordered || self.haz("sort_key_rename");
                if used.contains(&name) && !rename_ok {
                    continue;
                }
                let alias = if used.contains(&name) || (rename_ok && self.t.chance(1, 6)) {
                    if self.cur_ordered { self.touch("sort_key_rename"); }
                    Some(self.fresh_alias())
                } else {
                    None
                };
                let out_name = alias.clone().unwrap_or(name);
                used.push(out_name.clone());
                items.push(Item {
                    alias: alias.clone(),
                    expr: Expr::Col(ColRef { idx: i, text }),
                });
                newf.cols.push(FCol {
                    name: Some(out_name),
                    rel: if alias.is_some() { None } else { src.rel.clone() },
                    ..src
                });
            } else {
                let ty = *self.t.pick(&[Ty::Int, Ty::Int, Ty::Float, Ty::Bool, Ty::Text]);
                let mut e = self.expr(frame, ty, 2);
                if matches!(e, Expr::Col(_) | Expr::Paren(_)) {
                    if self.haz("dup_select") {
                        self.touch("dup_select");
                    } else {
                        e = match ty {
                            Ty::Int | Ty::Float => Expr::bin(BinOp::Add, e, Expr::Lit(Val::Int(1))),
                            Ty::Bool => Expr::Un(UnOp::Not, Box::new(e)),
                            Ty::Text => Expr::bin(BinOp::Coalesce, e, Expr::Lit(Val::Text("z".into()))),
                        };
                    }
                }
                let alias = self.fresh_alias();
                used.push(alias.clone());
                let fa = Self::expr_deps(frame, &e);
                let e_probe = e.clone();
                items.push(Item {
                    alias: Some(alias.clone()),
                    expr: e,
                });
                newf.cols.push(FCol {
                    name: Some(alias),
                    rel: None,
                    ty,
                    unique: false,
                    nullable: true,
                    deps: fa.clone(),
                    is_const: Self::is_const_in(frame, &e_probe),
                    computed: true,
                    windowed: false,
                });
            }
        }
        // keep every aggregate alive (finding C01-aggregate-pruned) unless asked not to
        let required = Self::all_deps(&frame.cols);
        if !required.is_empty() {
            if self.haz("drop_agg") {
                if Self::all_deps(&newf.cols).len() < required.len() {
                    self.touch("drop_agg");
                }
            } else {
                loop {
                    let have = Self::all_deps(&newf.cols);
                    let Some(miss) = required.iter().find(|d| !have.contains(d)).copied() else { break };
                    let refs = self.cols_of(frame, &|c| c.deps.contains(&miss));
                    let Some((i, text)) = refs.into_iter().find(|(i, _)| !used_idx.contains(i)) else { break };
                    let src = frame.cols[i].clone();
                    let name = src.name.clone().unwrap();
                    let alias = if used.contains(&name) { Some(self.fresh_alias()) } else { None };
                    used.push(alias.clone().unwrap_or(name.clone()));
                    used_idx.push(i);
                    items.push(Item { alias: alias.clone(), expr: Expr::Col(ColRef { idx: i, text }) });
                    newf.cols.push(FCol { name: Some(alias.clone().unwrap_or(name)), rel: if alias.is_some() { None } else { src.rel.clone() }, ..src });
                }
            }
        }
        if items.is_empty() {
            let e = self.lit(Ty::Int);
            let alias = self.fresh_alias();
            items.push(Item {
                alias: Some(alias.clone()),
                expr: e,
            });
            newf.cols.push(FCol {
                name: Some(alias),
                rel: None,
                ty: Ty::Int,
                unique: false,
                nullable: false,
                deps: vec![],
                    is_const: false,
                    computed: false,
                    windowed: false,
            });
        }
        *frame = newf;
        Step::Select(items)
    }

    fn gen_derive(&mut self, frame: &mut Frame, ord: &Ord, wf: WFrame, window_ok: bool) -> Step {
        let n = 1 + self.t.choose(2);
        let mut items = vec![];
        for _ in 0..n {
            let (e, ty) = if window_ok && self.t.chance(1, 2) {
                self.win_expr(frame, ord, wf)
            } else {
                let ty = *self.t.pick(&[Ty::Int, Ty::Int, Ty::Float, Ty::Bool, Ty::Text]);
                let mut e = self.expr(frame, ty, 2);
                // `derive {c = a}` makes two names for one column (finding C05-same-column-merged family)
                if matches!(e, Expr::Col(_) | Expr::Paren(_)) {
                    if self.haz("dup_select") {
                        self.touch("dup_select");
                    } else {
                        e = match ty {
                            Ty::Int | Ty::Float => Expr::bin(BinOp::Add, e, Expr::Lit(Val::Int(1))),
                            Ty::Bool => Expr::Un(UnOp::Not, Box::new(e)),
                            Ty::Text => Expr::bin(BinOp::Coalesce, e, Expr::Lit(Val::Text("z".into()))),
                        };
                    }
                }
                (e, ty)
            };
            // mostly a fresh name; sometimes shadow an existing, referenced column
            let shadow = if self.haz("shadow") && self.t.chance(1, 4) {
                let mut cand: Option<String> = None;
                e.walk(&mut |x| {
                    if let Expr::Col(c) = x {
                        if cand.is_none() {
                            cand = frame.cols[c.idx].name.clone();
                        }
                    }
                });
                let bare = matches!(e, Expr::Col(_) | Expr::Paren(_));
                cand.filter(|n| {
                    frame.cols.iter().filter(|c| c.name.as_ref() == Some(n)).count() == 1
                        && items.is_empty()
                        && !bare
                })
            } else {
                None
            };
            let is_shadow = shadow.is_some();
            if is_shadow {
                self.touch("shadow");
            }
            let alias = shadow.unwrap_or_else(|| self.fresh_alias());
            let fa = Self::expr_deps(frame, &e);
            let e_probe = e.clone();
            let constness = Self::is_const_in(frame, &e_probe);
            let mut is_windowed = e_probe.has_window();
            e_probe.walk(&mut |x| {
                if let Expr::Col(c) = x {
                    if frame.cols.get(c.idx).map(|c| c.windowed).unwrap_or(false) {
                        is_windowed = true;
                    }
                }
            });
            items.push(Item {
                alias: Some(alias.clone()),
                expr: e,
            });
            Self::name_added(
                frame,
                FCol {
                    name: Some(alias),
                    rel: None,
                    ty,
                    unique: false,
                    nullable: true,
                    deps: fa.clone(),
                    is_const: constness,
                    computed: true,
                    windowed: is_windowed,
                },
            );
            if is_shadow {
                break;
            }
        }
        Step::Derive(items)
    }

    fn gen_sort(&mut self, frame: &Frame, ord: &mut Ord, force_total: bool) -> Option<Step> {
        // sorting by a windowed column: finding C07-sort-by-windowed-scope
        let allow_w = self.haz("sort_by_windowed");
        if allow_w && frame.cols.iter().any(|c| c.windowed) {
            self.touch("sort_by_windowed");
        }
        let refs = self.cols_of(frame, &|c| allow_w || !c.windowed);
        if refs.is_empty() {
            return None;
        }
        let n = 1 + self.t.weighted(&[5, 3, 1]);
        let mut keys = vec![];
        let mut total = false;
        let mut used = vec![];
        for _ in 0..n {
            let (i, text) = refs[self.t.choose(refs.len())].clone();
            if used.contains(&i) {
                // sometimes a key is mentioned again later in the list (other direction): it has no effect
                if !keys.is_empty() && self.t.chance(1, 3) {
                    let first_desc = keys.iter().find(|k: &&SortKey| matches!(&k.expr, Expr::Col(c) if c.idx == i)).map(|k| k.desc);
                    if let Some(d) = first_desc {
                        keys.push(SortKey { desc: !d, explicit_plus: false, expr: Expr::Col(ColRef { idx: i, text }) });
                    }
                }
                continue;
            }
            used.push(i);
            let c = &frame.cols[i];
            let mut force_desc = false;
            let e = if c.ty.numeric() && self.helpers_ok() && self.t.chance(1, 16) {
                if self.wild_prog { self.touch("wild_helpers"); }
                // a negated key, once or twice (`sort {-(-a)}`, `sort {+(-a)}`): the direction is the
                // parity of the minus signs
                // (only the form `-(-a)`: descending by the expression `-a`. A single parenthesised minus is
                // still read as a direction, which flips where the engine puts NULLs - left open by the book)
                force_desc = true;
                Expr::Un(UnOp::Neg, Box::new(Expr::Col(ColRef { idx: i, text })))
            } else if c.ty == Ty::Int && self.helpers_ok() && self.t.chance(1, 8) {
                if self.wild_prog { self.touch("wild_helpers"); }
                // computed key
                Expr::bin(
                    BinOp::Mul,
                    Expr::Col(ColRef { idx: i, text }),
                    Expr::int(self.t.range(-1, 2)),
                )
            } else {
                if c.unique {
                    total = true;
                }
                Expr::Col(ColRef { idx: i, text })
            };
            let (d0, p0) = (self.t.chance(1, 3), self.t.chance(1, 8));
            keys.push(SortKey {
                desc: d0 || force_desc,
                explicit_plus: p0 && !force_desc,
                expr: e,
            });
        }
        if !total && (force_total || self.t.chance(4, 5)) {
            if let Some((i, text)) = refs.iter().find(|(i, _)| frame.cols[*i].unique && !used.contains(i)) {
                keys.push(SortKey {
                    desc: self.t.chance(1, 3),
                    explicit_plus: false,
                    expr: Expr::Col(ColRef {
                        idx: *i,
                        text: text.clone(),
                    }),
                });
                total = true;
            }
        }
        let one_numeric = keys.len() == 1
            && match &keys[0].expr {
                Expr::Col(c) => frame.cols[c.idx].ty.numeric(),
                _ => false,
            };
        let mut key_names = vec![];
        for k in &keys {
            k.expr.walk(&mut |x| {
                if let Expr::Col(c) = x {
                    if let Some(n) = frame.cols.get(c.idx).and_then(|c| c.name.clone()) {
                        key_names.push(n);
                    }
                }
            });
        }
        *ord = Ord {
            key_names,
            ordered: true,
            total,
            one_numeric_key: one_numeric,
            key_dropped: false,
            dirty: false,
            computed_key: keys.iter().any(|k| !matches!(k.expr, Expr::Col(_))),
        };
        Some(Step::Sort(keys))
    }

    fn gen_take(&mut self) -> Step {
        match self.t.choose(5) {
            0 | 1 => Step::Take {
                lo: None,
                hi: Some(self.t.range(1, 5)),
                single: true,
            },
            2 => {
                let lo = self.t.range(1, 4);
                Step::Take {
                    lo: Some(lo),
                    hi: Some(lo + self.t.range(0, 3)),
                    single: false,
                }
            }
            3 => {
                // open-ended takes: `take 2..` (finding C07-offset-without-limit) and the no-op
                // `take 1..` (finding C07-noop-take-keeps-sort)
                if self.haz("open_take") {
                    self.touch("open_take");
                    Step::Take {
                        lo: Some(self.t.range(1, 4)),
                        hi: None,
                        single: false,
                    }
                } else {
                    let lo = self.t.range(1, 3);
                    Step::Take {
                        lo: Some(lo),
                        hi: Some(lo + 4),
                        single: false,
                    }
                }
            }
            _ => Step::Take {
                lo: None,
                hi: Some(self.t.range(1, 4)),
                single: false,
            },
        }
    }

    /// a source to join/append with, and its frame
    fn gen_right_source(&mut self, left: &Frame, depth: usize) -> (Source, Frame) {
        let left_rels: Vec<String> = left.cols.iter().filter_map(|c| c.rel.clone()).collect();
        let forced = self.force_right_let.is_some();
        let kind = self.t.weighted(&[
            if self.wild_prog { 6 } else { 0 },
            if self.lets.is_empty() { 0 } else if self.haz("sorted_let") { 10 } else { 3 },
            4,
        ]);
        let kind = if forced { 1 } else { kind };
        match kind {
            1 => {
                let mut li = self.t.choose(self.lets.len());
                if let Some(x) = self.force_right_let.take() {
                    li = x;
                }
                let (mut f, _) = self.let_frames[li].clone();
                let lname = self.lets[li].name.clone();
                let alias = if left_rels.contains(&lname) || self.t.chance(1, 3) {
                    Some(self.fresh_rel())
                } else {
                    None
                };
                let rel = alias.clone().unwrap_or(lname);
                for c in f.cols.iter_mut() {
                    c.rel = Some(rel.clone());
                }
                f.wild_rels = if f.wild_rels.is_empty() { vec![] } else { vec![rel.clone()] };
                (
                    Source {
                        kind: SrcKind::Let(li),
                        alias,
                    },
                    f,
                )
            }
            2 => {
                let ti = self.t.choose(self.db.tables.len());
                let tname = self.db.tables[ti].name.clone();
                let mut f = self.table_frame(&tname, &tname, true);
                let mut o = Ord::default();
                let mut steps = vec![];
                // always end in a known frame
                if self.t.chance(1, 3) {
                    let e = self.expr(&f, Ty::Bool, 1);
                    steps.push(Step::Filter(e));
                }
                if depth > 0 && self.t.chance(1, 5) {
                    // a sub-pipeline nested inside the sub-pipeline (join or append operand)
                    let saved = self.in_sub;
                    self.in_sub = true;
                    let mut o2 = Ord::default();
                    let js = self.gen_join(&mut f, &mut o2, depth - 1);
                    self.in_sub = saved;
                    steps.extend(js);
                }
                steps.push(self.gen_select(&mut f));
                if self.haz("sorted_let") && self.t.chance(1, 4) {
                    self.touch("sorted_let");
                    if let Some(s) = self.gen_sort(&f, &mut o, true) {
                        steps.push(s);
                        if o.total && self.t.chance(1, 2) {
                            steps.push(self.gen_take());
                        }
                    }
                }
                let alias = self.fresh_rel();
                for c in f.cols.iter_mut() {
                    c.rel = Some(alias.clone());
                }
                f.wild_rels.clear();
                (
                    Source {
                        kind: SrcKind::Sub(Box::new(Pipeline {
                            source: Source {
                                kind: SrcKind::Table(tname),
                                alias: None,
                            },
                            steps,
                        })),
                        alias: Some(alias),
                    },
                    f,
                )
            }
            _ => {
                let ti = self.t.choose(self.db.tables.len());
                let tname = self.db.tables[ti].name.clone();
                let alias = if left_rels.contains(&tname) || self.t.chance(1, 4) {
                    Some(self.fresh_rel())
                } else {
                    None
                };
                let rel = alias.clone().unwrap_or(tname.clone());
                let f = self.table_frame(&tname, &rel, true);
                (
                    Source {
                        kind: SrcKind::Table(tname),
                        alias,
                    },
                    f,
                )
            }
        }
    }

    fn gen_join(&mut self, frame: &mut Frame, ord: &mut Ord, depth: usize) -> Vec<Step> {
        let (src, rf) = self.gen_right_source(frame, depth);
        let ln = frame.cols.len();
        let mut both = frame.clone();
        both.cols.extend(rf.cols.iter().cloned());
        both.wild_rels.extend(rf.wild_rels.iter().cloned());
        let side = *self.t.pick(&[
            Side::Inner,
            Side::Inner,
            Side::Left,
            Side::Left,
            Side::Right,
            Side::Full,
        ]);
        // candidate equality pairs: same type, both referenceable
        let mut pairs = vec![];
        for i in 0..ln {
            for j in ln..both.cols.len() {
                if both.cols[i].ty == both.cols[j].ty
                    && both.cols[i].ty != Ty::Float
                    && both.cols[i].name.is_some()
                    && both.cols[j].name.is_some()
                {
                    pairs.push((i, j));
                }
            }
        }
        let cond = if pairs.is_empty() || self.t.chance(1, 12) {
            JoinCond::Expr(Expr::Lit(Val::Bool(true)))
        } else {
            let (i, j) = pairs[self.t.choose(pairs.len())];
            let same_name = both.cols[i].name == both.cols[j].name;
            let name = both.cols[i].name.clone().unwrap();
            let li_unique = frame.cols.iter().filter(|c| c.name.as_ref() == Some(&name)).count() == 1;
            let rj_unique = rf.cols.iter().filter(|c| c.name.as_ref() == Some(&name)).count() == 1;
            if same_name && li_unique && rj_unique && self.t.chance(1, 2) {
                JoinCond::SelfEq(vec![(i, j, name)])
            } else {
                let lt = self.ref_text(&both, i);
                let rt = self.ref_text(&both, j);
                match (lt, rt) {
                    (Some(lt), Some(rt)) => {
                        let mut e = Expr::bin(
                            BinOp::Eq,
                            Expr::Col(ColRef { idx: i, text: lt }),
                            Expr::Col(ColRef { idx: j, text: rt }),
                        );
                        if self.t.chance(1, 4) {
                            let extra = self.expr(&both, Ty::Bool, 1);
                            e = Expr::bin(BinOp::And, e, extra);
                        }
                        JoinCond::Expr(e)
                    }
                    _ => return vec![],
                }
            }
        };
        for c in both.cols.iter_mut() {
            c.unique = false;
            c.nullable = true;
        }
        *frame = both;
        ord.total = false;
        if matches!(side, Side::Right | Side::Full) {
            // unmatched right rows have no position; keep the flag, the interpreter decides
        }
        let mut out = vec![Step::Join {
            side,
            right: Box::new(src),
            cond,
        }];
        // same-named columns of the two sides: alias them apart right away, so that the
        // projection never lists two qualified columns of one name (finding C05-dedup-select-items)
        let mut seen: Vec<String> = vec![];
        let mut dup = false;
        for c in &frame.cols {
            if let Some(n) = &c.name {
                if seen.contains(n) {
                    dup = true;
                }
                seen.push(n.clone());
            }
        }
        if dup && self.haz("dup_names") {
            self.touch("dup_names");
        }
        // two wildcard relations under the exclusion hazards: the projection is `l.*, r.*`, which
        // is not subject to that finding; keep the frame a wildcard
        let all_wild = self.haz_wild_join()
            && frame.cols.iter().all(|c| c.rel.as_ref().is_some_and(|r| frame.wild_rels.contains(r)));
        if dup && all_wild {
            // finding C07-wildcard-join-duplicate-names
            self.touch("wild_dup_join");
        }
        if dup && !self.haz("dup_names") && !all_wild {
            let mut items = vec![];
            let mut nf = Frame::default();
            let mut used: Vec<String> = vec![];
            for i in 0..frame.cols.len() {
                let Some(text) = self.ref_text(frame, i) else { continue };
                let c = frame.cols[i].clone();
                let name = c.name.clone().unwrap();
                let alias = if used.contains(&name) { Some(self.fresh_alias()) } else { None };
                let out_name = alias.clone().unwrap_or(name);
                used.push(out_name.clone());
                items.push(Item { alias: alias.clone(), expr: Expr::Col(ColRef { idx: i, text }) });
                nf.cols.push(FCol { name: Some(out_name), rel: if alias.is_some() { None } else { c.rel.clone() }, ..c });
            }
            if !items.is_empty() {
                out.push(Step::Select(items));
                *frame = nf;
            }
        }
        out
    }

    /// `covered`: aggregate ids already kept alive by the group keys
    fn gen_aggregate(&mut self, frame: &Frame, covered: &[u32]) -> (Step, Vec<FCol>) {
        let n = 1 + self.t.choose(3);
        let mut items = vec![];
        let mut cols: Vec<FCol> = vec![];
        self.agg_counter += 1;
        let my_id = self.agg_counter;
        for _ in 0..n {
            let (e, ty) = self.agg_expr(frame);
            let alias = self.fresh_alias();
            let mut deps = Self::expr_deps(frame, &e);
            deps.push(my_id);
            items.push(Item {
                alias: Some(alias.clone()),
                expr: e,
            });
            cols.push(FCol {
                name: Some(alias),
                rel: None,
                ty,
                unique: false,
                nullable: true,
                deps,
                is_const: false,
                    computed: true,
                    windowed: false,
            });
        }
        // keep earlier aggregates alive through a value-dependent use
        let required = Self::all_deps(&frame.cols);
        if !required.is_empty() {
            if self.haz("drop_agg") {
                self.touch("drop_agg");
            } else {
                loop {
                    let mut have = Self::all_deps(&cols);
                    have.extend(covered.iter().copied());
                    let Some(miss) = required.iter().find(|d| !have.contains(d)).copied() else { break };
                    let refs = self.cols_of(frame, &|c| c.deps.contains(&miss) && c.ty != Ty::Bool);
                    let Some((i, text)) = refs.first().cloned() else { break };
                    let ty = frame.cols[i].ty;
                    let f = *self.t.pick(&[AggFn::Max, AggFn::Min]);
                    let alias = self.fresh_alias();
                    let mut deps = frame.cols[i].deps.clone();
                    deps.push(my_id);
                    items.push(Item { alias: Some(alias.clone()), expr: Expr::Agg(f, Box::new(Expr::Col(ColRef { idx: i, text }))) });
                    cols.push(FCol { name: Some(alias), rel: None, ty, unique: false, nullable: true, deps, is_const: false, computed: true, windowed: false });
                }
            }
        }
        (Step::Aggregate(items), cols)
    }

    fn gen_group(&mut self, frame: &mut Frame, ord: &mut Ord) -> Option<Step> {
        let allow_const = self.haz("const_group_key");
        let refs = self.cols_of(frame, &|c| c.ty != Ty::Float && (allow_const || !c.is_const));
        if refs.is_empty() {
            return None;
        }
        // the distinct idiom: every column of the frame is a key, `take 1` inside
        let all_refs = self.cols_of(frame, &|c| allow_const || !c.is_const);
        let p_distinct = if self.win_chain == 1 { 1 } else if self.cfg.bias == Bias::Window { 3 } else { 10 };
        if self.helpers_ok()
            && all_refs.len() == frame.cols.len()
            && frame.cols.len() <= 6
            && frame.cols.iter().all(|c| c.name.is_some())
            // after a take the DISTINCT is merged into the SELECT of the LIMIT (finding
            // C01-take-then-distinct-merged)
            && (!self.had_take || self.haz("take_distinct"))
            && self.t.chance(1, p_distinct)
        {
            if self.had_take {
                self.touch("take_distinct");
            }
            let keys: Vec<ColRef> = all_refs.iter().map(|(i, text)| ColRef { idx: *i, text: text.clone() }).collect();
            if self.wild_prog { self.touch("wild_helpers"); }
            for c in frame.cols.iter_mut() {
                c.unique = false;
            }
            *ord = Ord::default();
            Self::keys_first(frame, &keys);
            return Some(Step::Group { keys, inner: vec![Step::Take { lo: None, hi: Some(1), single: true }] });
        }
        // prefer low-cardinality keys
        let mut keys: Vec<ColRef> = vec![];
        let nk = 1 + self.t.weighted(&[4, 1]);
        for _ in 0..nk {
            let lowcard: Vec<&(usize, String)> = refs
                .iter()
                .filter(|(i, _)| {
                    frame.cols[*i].name.as_ref().map(|n| n == &self.names.cols[2] || n == &self.names.cols[5] || n == &self.names.cols[3]).unwrap_or(false)
                })
                .collect();
            let (i, text) = if !lowcard.is_empty() && self.t.chance(2, 3) {
                lowcard[self.t.choose(lowcard.len())].clone()
            } else {
                refs[self.t.choose(refs.len())].clone()
            };
            if keys.iter().any(|k| k.idx == i) {
                continue;
            }
            if frame.cols[i].is_const {
                self.touch("const_group_key");
            }
            keys.push(ColRef { idx: i, text });
        }
        let hok = self.helpers_ok();
        let hw = |w: u32| if hok { w } else { 0 };
        let kind = match self.cfg.bias {
            Bias::Window => self.t.weighted(&[2, hw(2), hw(5)]),
            Bias::Sort => self.t.weighted(&[3, hw(4), hw(2)]),
            _ => self.t.weighted(&[5, hw(2), hw(2)]),
        };
        if kind != 0 && self.wild_prog { self.touch("wild_helpers"); }
        // `sort | take | group k (derive ..)` loses the ORDER BY of the take (finding C03-take-before-group-loses-sort)
        let kind = if kind == 2 && ord.ordered && !self.haz("sorted_group_derive") { 0 } else { kind };
        if kind == 2 && ord.ordered { self.touch("sorted_group_derive"); }
        match kind {
            0 => {
                let mut inner_frame = frame.clone();
                for k in &keys {
                    // computed keys referenced inside the aggregate hit finding C07-group-key-alias-in-aggregate
                    inner_frame.cols[k.idx].name = None;
                }
                let covered: Vec<u32> = keys.iter().flat_map(|k| frame.cols[k.idx].deps.clone()).collect();
                let (agg, cols) = self.gen_aggregate(&inner_frame, &covered);
                let mut nf = Frame::default();
                let single = keys.len() == 1;
                for k in &keys {
                    let mut c = frame.cols[k.idx].clone();
                    c.unique = false;
                    // a single key is unique over the groups (NULL forms one group)
                    let _ = single;
                    nf.cols.push(c);
                }
                nf.cols.extend(cols);
                *frame = nf;
                *ord = Ord::default();
                Some(Step::Group {
                    keys,
                    inner: vec![agg],
                })
            }
            1 => {
                // sort + take inside the group (key columns are not in scope inside the group)
                let mut o = Ord::default();
                let mut inner_frame = frame.clone();
                for k in &keys {
                    inner_frame.cols[k.idx].name = None;
                }
                let sort = self.gen_sort(&inner_frame, &mut o, true)?;
                let inner = vec![sort, self.gen_take()];
                self.had_group_take = true;
                *ord = Ord::default();
                Self::keys_first(frame, &keys);
                Some(Step::Group { keys, inner })
            }
            _ => {
                // [sort] [window] derive {window exprs}
                let mut o = Ord::default();
                let mut inner = vec![];
                let mut inner_frame = frame.clone();
                for k in &keys {
                    inner_frame.cols[k.idx].name = None;
                }
                if self.t.chance(4, 5) {
                    let ft = self.t.chance(3, 4);
                    if let Some(s) = self.gen_sort(&inner_frame, &mut o, ft) {
                        inner.push(s);
                    }
                }
                let wf = self.gen_wframe(&o);
                let before = inner_frame.cols.len();
                let d = self.gen_derive(&mut inner_frame, &o, wf, true);
                // carry the derived columns (and any shadowing) over to the outer frame
                for (i, c) in inner_frame.cols.iter().enumerate() {
                    if i < before {
                        if c.name.is_none() && !keys.iter().any(|k| k.idx == i) {
                            frame.cols[i].name = None;
                        }
                    } else {
                        frame.cols.push(c.clone());
                    }
                }
                if wf == WFrame::Default {
                    inner.push(d);
                } else {
                    inner.push(Step::Window {
                        frame: wf,
                        inner: vec![d],
                    });
                }
                *ord = Ord::default();
                Self::keys_first(frame, &keys);
                Some(Step::Group { keys, inner })
            }
        }
    }

    /// the output frame of `group` lists the key columns first (observed; group.md shows keys first)
    fn keys_first(frame: &mut Frame, keys: &[ColRef]) {
        let mut cols = vec![];
        for k in keys {
            cols.push(frame.cols[k.idx].clone());
        }
        for (i, c) in frame.cols.iter().enumerate() {
            if !keys.iter().any(|k| k.idx == i) {
                cols.push(c.clone());
            }
        }
        frame.cols = cols;
    }

    fn gen_wframe(&mut self, o: &Ord) -> WFrame {
        if !o.ordered {
            return WFrame::Default;
        }
        let b = |g: &mut Self, lo: i64, hi: i64| -> Option<i64> {
            if g.t.chance(1, 5) {
                None
            } else {
                Some(g.t.range(lo, hi))
            }
        };
        let mut opts = vec![0u8];
        if o.total {
            opts.extend([1, 2, 3]);
        }
        if o.one_numeric_key {
            opts.push(4);
        }
        match opts[self.t.choose(opts.len())] {
            1 => {
                let a = b(self, -3, 1);
                let c = b(self, a.unwrap_or(-1).max(-1), 3);
                WFrame::Rows(a, c)
            }
            2 => WFrame::Rolling(self.t.range(1, 4)),
            3 => WFrame::Expanding,
            4 => {
                let a = b(self, -3, 0);
                let c = b(self, 0, 3);
                WFrame::Range(a, c)
            }
            _ => WFrame::Default,
        }
    }

    fn gen_append(&mut self, frame: &mut Frame) -> Option<Step> {
        // bottom: a sub-pipeline over some table selecting columns of matching types
        let ti = self.t.choose(self.db.tables.len());
        let tname = self.db.tables[ti].name.clone();
        let mut tf = self.table_frame(&tname, &tname, true);
        let mut bottom_src = SrcKind::Table(tname);
        self.append_let_bottom = false;
        // sometimes the bottom reads a let-table (which may also be read elsewhere in the program)
        if !self.lets.is_empty() && self.t.chance(1, 3) {
            let li = self.t.choose(self.lets.len());
            let (lf, _) = self.let_frames[li].clone();
            if lf.wild_rels.is_empty() && !lf.cols.is_empty() {
                let lname = self.lets[li].name.clone();
                // same arity and column types: the let-table itself can be the operand (`append l0`)
                self.append_let_bottom = true;
                let same_shape = lf.cols.len() == frame.cols.len() && lf.cols.iter().zip(&frame.cols).all(|(a, b)| a.ty == b.ty);
                if same_shape && self.t.chance(2, 3) {
                    for c in frame.cols.iter_mut() {
                        c.unique = false;
                        c.nullable = true;
                        c.rel = None;
                    }
                    frame.wild_rels.clear();
                    return Some(Step::Append(Box::new(Source { kind: SrcKind::Let(li), alias: None })));
                }
                tf = lf;
                for c in tf.cols.iter_mut() {
                    c.rel = Some(lname.clone());
                }
                bottom_src = SrcKind::Let(li);
            }
        }
        let mut items = vec![];
        let mut used_names: Vec<String> = vec![];
        for c in &frame.cols {
            let e = match self.pick_col(&tf, c.ty) {
                Some(e) if self.t.chance(4, 5) => e,
                _ => {
                    if self.t.chance(1, 6) {
                        Expr::Lit(Val::Null)
                    } else {
                        self.lit(c.ty)
                    }
                }
            };
            let bare_name = match &e {
                Expr::Col(cr) => tf.cols[cr.idx].name.clone(),
                _ => None,
            };
            let _ = &c.name;
            let alias = match &bare_name {
                Some(bn) if !used_names.contains(bn) && self.t.chance(1, 2) => None,
                _ => Some(self.fresh_alias()),
            };
            used_names.push(alias.clone().or(bare_name).unwrap_or_default());
            items.push(Item { alias, expr: e });
        }
        // literal-only items need an alias; plain columns may stay bare
        for it in items.iter_mut() {
            if !matches!(it.expr, Expr::Col(_)) && it.alias.is_none() {
                it.alias = Some(self.fresh_alias());
            }
        }
        // sometimes the bottom pipeline is declared as a let-table of its own and appended by
        // name (`append la0`); other parts of the program may read the same let-table
        // (not inside a module let-table: the new declaration would be printed after the module)
        if self.cfg.allow_lets && !(self.module_scheme && self.in_sub) && matches!(bottom_src, SrcKind::Table(_)) && self.t.chance(1, 4) {
            self.append_let_bottom = true;
            let lname = format!("la{}", self.lets.len());
            let lf = Frame {
                cols: items
                    .iter()
                    .zip(&frame.cols)
                    .map(|(it, c)| FCol {
                        name: it.alias.clone().or_else(|| match &it.expr {
                            Expr::Col(cr) => tf.cols[cr.idx].name.clone(),
                            _ => None,
                        }),
                        rel: Some(lname.clone()),
                        ty: c.ty,
                        unique: false,
                        nullable: true,
                        deps: vec![],
                        is_const: !matches!(it.expr, Expr::Col(_)),
                        computed: !matches!(it.expr, Expr::Col(_)),
                        windowed: false,
                    })
                    .collect(),
                wild_rels: vec![],
            };
            self.lets.push(LetDef {
                name: lname,
                pipe: Pipeline {
                    source: Source { kind: bottom_src, alias: None },
                    steps: vec![Step::Select(items)],
                },
                into: false,
                module: None,
            });
            self.let_frames.push((lf, Ord::default()));
            for c in frame.cols.iter_mut() {
                c.unique = false;
                c.nullable = true;
                c.rel = None;
            }
            frame.wild_rels.clear();
            // ... and sometimes it is appended twice in a row
            self.dup_append = self.t.chance(1, 3);
            return Some(Step::Append(Box::new(Source { kind: SrcKind::Let(self.lets.len() - 1), alias: None })));
        }
        for c in frame.cols.iter_mut() {
            c.unique = false;
            c.nullable = true;
            c.rel = None;
        }
        frame.wild_rels.clear();
        Some(Step::Append(Box::new(Source {
            kind: SrcKind::Sub(Box::new(Pipeline {
                source: Source {
                    kind: bottom_src,
                    alias: None,
                },
                steps: vec![Step::Select(items)],
            })),
            alias: None,
        })))
    }

    pub fn gen_steps(&mut self, frame: &mut Frame, ord: &mut Ord, n: usize, depth: usize) -> Vec<Step> {
        let mut steps = vec![];
        for si in 0..n {
            let known = frame.wild_rels.is_empty();
            self.cur_ordered = ord.ordered;
            // weights: select derive filter sort take join aggregate group window append select-except
            let w: [u32; 11] = match self.cfg.bias {
                Bias::General => [5, 5, 6, 4, 4, 4, 2, 4, 2, 1, 1],
                Bias::Sort => [4, 4, 5, 8, 7, 3, 1, 2, 1, 0, 1],
                Bias::Window => [3, 6, 4, 6, 2, 2, 1, 6, 6, 0, 0],
                Bias::Frame => [7, 6, 3, 3, 3, 5, 2, 4, 2, 4, 3],
            };
            let mut w = w;
            if !ord.ordered {
                w[8] = w[8].min(1);
            }
            if !(ord.ordered && ord.total) {
                // take is only deterministic over a total order
                w[4] = if si + 1 == n { 1 } else { 0 };
            }
            if ord.ordered && ord.dirty && !self.haz("take_far_from_sort") {
                w[4] = 0;
            }
            let append_risky = self.cur_src_let || ord.ordered || !self.simple_so_far;
            if ord.ordered && !self.haz("sorted_aggregate") {
                // the sort in effect before an aggregate leaks into later window functions
                // (finding C04-stale-sort-after-aggregate)
                w[6] = 0;
            }
            if self.ntakes >= 2 && !self.haz("multi_take_agg") {
                // two takes then aggregate: finding C07-sort-column-pruned-before-take family
                w[6] = 0;
                w[7] = 0;
            }
            if self.had_take && self.resorted_after_take && !self.haz("resort_after_take") {
                // `sort | take | sort | take`: the first sort+take is lost (finding
                // C03-take-sort-take-merged): after a take and a new sort there is no second take
                w[4] = 0;
            }
            if self.had_group_take && ord.ordered && !self.haz("group_take_sort_agg") {
                // take-in-group, then sort (+take), then aggregate: finding C12-group-take-sort-aggregate
                w[6] = 0;
                w[7] = 0;
            }
            if ord.ordered && ord.computed_key && !self.haz("computed_key_join") {
                // a computed sort key in effect at a join is lowered into the wrong relation
                // (finding C16-computed-sort-key-lowered-into-subpipeline)
                w[5] = 0;
            }
            if ord.ordered && ord.key_dropped && !self.haz("dropped_key_join") {
                // sort key dropped by a select, then a join: finding C03-dropped-sort-key-join
                w[5] = 0;
            }
            if self.in_sub && !self.haz("sorted_let") {
                w[3] = 0;
                w[4] = 0;
            }
            if !self.cfg.allow_append || !known || (append_risky && !self.haz("append_free")) {
                w[9] = 0;
            }
            if self.after_append && !self.haz("append_free") {
                // after an append (of a simple bottom onto a simple top) no join and no further append
                w[5] = 0;
                w[9] = 0;
                if self.append_let_bottom {
                    // the bottom reads a let-table: later projections / aggregations prune the top
                    // only (finding C01-append-pruning)
                    w[0] = 0;
                    w[6] = 0;
                    w[7] = 0;
                    w[10] = 0;
                }
            }
            if self.wild_prog && ord.ordered && !self.haz("wild_helpers") {
                // a sort key dropped later becomes a helper column that leaks through `*`
                w[0] = 0;
                w[5] = 0;
                w[6] = 0;
                w[7] = 0;
                w[8] = 0;
                w[9] = 0;
                w[10] = 0;
            }
            if self.cfg.append_boost {
                if !self.after_append {
                    // simple tops with nested computed columns: derive, then select over them
                    w[1] *= 3;
                    w[0] *= 2;
                    for i in [3, 4, 5, 6, 7, 8] {
                        w[i] = w[i].min(1);
                    }
                }
                if w[9] > 0 {
                    w[9] = 12;
                }
                if self.after_append && !self.append_let_bottom {
                    w[0] *= 3;
                    w[10] = w[10].max(1) * 3;
                    w[1] *= 2;
                }
            }
            if !known {
                // exclusion over a wildcard frame
                if !self.haz_wild_except() {
                    w[10] = 0;
                } else if self.n_wild_except >= 1 && !self.haz("wild_except_twice") {
                    // a second exclusion forgets the first (finding C05-consecutive-exclusions-forget-first)
                    w[10] = 0;
                } else if ord.ordered && !self.haz("wild_except_sorted") {
                    // excluding a key of the sort in effect (finding C05-excluded-sort-key-returns)
                    w[10] = 0;
                } else if !(self.after_append && !self.haz("append_free")) {
                    w[10] = 12;
                }
                if self.haz_wild_join() {
                    // keep the frame a wildcard, prefer joins of two wildcard relations
                    w[0] = w[0].min(1);
                    w[6] = w[6].min(1);
                    w[7] = w[7].min(1);
                    if w[5] > 0 {
                        w[5] = if frame.wild_rels.len() < 2 { 12 } else { 2 };
                    }
                }
            }
            if self.win_chain > 0 && known {
                let keep = if self.win_chain == 2 { 2 } else { 7 };
                if w[keep] > 0 {
                    for (i, x) in w.iter_mut().enumerate() {
                        if i != keep {
                            *x = 0;
                        }
                    }
                }
            }
            let mut choice = self.t.weighted(&w);
            if !self.in_sub && !self.forced.is_empty() {
                let f = self.forced.remove(0);
                if w[f] > 0 {
                    choice = f;
                } else {
                    self.forced.clear();
                }
            }
            if !matches!(choice, 0 | 1 | 2) {
                self.simple_so_far = false;
            }
            // (only reachable under the hazard) anything but derive / filter after an append
            if self.after_append && matches!(choice, 0 | 5 | 6 | 7 | 9 | 10) {
                self.touch("append_free");
            }
            if choice == 3 && self.in_sub {
                self.touch("sorted_let");
            }
            if choice == 3 && self.had_take {
                self.resorted_after_take = true;
            }
            if choice == 4 && self.resorted_after_take {
                self.touch("resort_after_take");
            }
            let st = match choice {
                0 => Some(self.gen_select(frame)),
                1 => {
                    let window_ok = self.t.chance(1, if self.cfg.bias == Bias::Window { 2 } else { 4 });
                    let d = self.gen_derive(frame, &ord.clone(), WFrame::Default, window_ok);
                    let windowed = matches!(&d, Step::Derive(items) if items.iter().any(|i| i.expr.has_window()));
                    if windowed && self.cfg.bias == Bias::Window && self.win_chain == 0 && self.t.chance(1, 3) {
                        self.win_chain = 3;
                    }
                    Some(d)
                }
                2 => {
                    if self.cfg.bias == Bias::Window && self.helpers_ok() && self.t.chance(1, 3) {
                        if self.wild_prog { self.touch("wild_helpers"); }
                        // filter on a windowed value
                        let (we, ty) = self.win_expr(frame, &ord.clone(), WFrame::Default);
                        let cmp = match ty {
                            Ty::Int | Ty::Float => Expr::bin(BinOp::Gt, we, self.lit(Ty::Int)),
                            Ty::Text => Expr::bin(BinOp::Ne, we, self.lit(Ty::Text)),
                            Ty::Bool => we,
                        };
                        Some(Step::Filter(cmp))
                    } else {
                        Some(Step::Filter(self.expr(frame, Ty::Bool, 2)))
                    }
                }
                3 => self.gen_sort(frame, ord, false),
                4 => {
                    self.had_take = true;
                    self.ntakes += 1;
                    if self.t.chance(1, 4) {
                        // `take a.. | take n`: an open-ended take bounded by the next one (the two
                        // are merged into one LIMIT/OFFSET, so no OFFSET without LIMIT is emitted)
                        let lo = self.t.range(1, 4);
                        steps.push(Step::Take { lo: Some(lo), hi: None, single: false });
                        let n = self.t.range(1, 4);
                        if self.t.chance(1, 2) {
                            Some(Step::Take { lo: None, hi: Some(n), single: true })
                        } else {
                            let l2 = self.t.range(1, 3);
                            Some(Step::Take { lo: Some(l2), hi: Some(l2 + n), single: false })
                        }
                    } else {
                        Some(self.gen_take())
                    }
                }
                5 => {
                    if ord.ordered && ord.key_dropped { self.touch("dropped_key_join"); }
                    if ord.ordered && ord.computed_key { self.touch("computed_key_join"); }
                    let js = self.gen_join(frame, ord, depth);
                    steps.extend(js);
                    None
                }
                6 => {
                    if ord.ordered { self.touch("sorted_aggregate"); }
                    if self.ntakes >= 2 { self.touch("multi_take_agg"); }
                    if self.had_group_take && ord.ordered { self.touch("group_take_sort_agg"); }
                    let (s, cols) = self.gen_aggregate(frame, &[]);
                    *frame = Frame {
                        cols,
                        wild_rels: vec![],
                    };
                    *ord = Ord::default();
                    Some(s)
                }
                7 => {
                    if self.ntakes >= 2 { self.touch("multi_take_agg"); }
                    if self.had_group_take && ord.ordered { self.touch("group_take_sort_agg"); }
                    self.gen_group(frame, ord)
                }
                8 if self.helpers_ok() && self.t.chance(1, 4) => {
                    // a windowed value used directly by a filter inside `window <frame> (..)`:
                    // the frame applies to the filter's function call as it would in a derive
                    let wf = self.gen_wframe(&ord.clone());
                    if self.wild_prog { self.touch("wild_helpers"); }
                    let (we, ty) = self.win_expr(frame, &ord.clone(), wf);
                    let cmp = match ty {
                        Ty::Int | Ty::Float => Expr::bin(BinOp::Gt, we, self.lit(Ty::Int)),
                        Ty::Text => Expr::bin(BinOp::Ne, we, self.lit(Ty::Text)),
                        Ty::Bool => we,
                    };
                    Some(Step::Window { frame: wf, inner: vec![Step::Filter(cmp)] })
                }
                8 => {
                    let wf = self.gen_wframe(&ord.clone());
                    let before = frame.cols.len();
                    let d = self.gen_derive(frame, &ord.clone(), wf, true);
                    // everything derived inside `window (..)` is compiled as a windowed column,
                    // also an expression without a window function (sorting by it: hazard
                    // sort_by_windowed)
                    for c in frame.cols.iter_mut().skip(before) {
                        c.windowed = true;
                    }
                    Some(Step::Window {
                        frame: wf,
                        inner: vec![d],
                    })
                }
                9 => {
                    if append_risky { self.touch("append_free"); }
                    self.after_append = true;
                    let s = self.gen_append(frame);
                    if s.is_some() {
                        *ord = Ord::default();
                    }
                    if self.dup_append {
                        self.dup_append = false;
                        if let Some(st) = &s {
                            steps.push(st.clone());
                        }
                    }
                    s
                }
                _ => {
                    let refs = self.cols_of(frame, &|_| true);
                    let mut return_two: Option<Step> = None;
                    if refs.len() >= 2 && frame.cols.iter().all(|c| c.name.is_some()) {
                        let (i, text) = refs[self.t.choose(refs.len())].clone();
                        let required = Self::all_deps(&frame.cols);
                        let mut rest = frame.cols.clone();
                        rest.remove(i);
                        if Self::all_deps(&rest).len() < required.len() {
                            if !self.haz("drop_agg") {
                                continue;
                            }
                            self.touch("drop_agg");
                        }
                        if !known {
                            self.touch("wild_except");
                            if self.n_wild_except >= 1 { self.touch("wild_except_twice"); }
                            if ord.ordered { self.touch("wild_except_sorted"); }
                            self.n_wild_except += 1;
                        }
                        // sometimes a second column, of another relation (two exclusion lists in one frame)
                        let other: Vec<(usize, String)> = refs
                            .iter()
                            .filter(|(j, _)| *j != i && frame.cols[*j].rel != frame.cols[i].rel && frame.cols[*j].rel.is_some())
                            .cloned()
                            .collect();
                        let p_two = if known { 2 } else { 4 };
                        if !other.is_empty() && refs.len() >= 3 && self.t.chance(p_two - 1, p_two) {
                            let (j, text2) = other[self.t.choose(other.len())].clone();
                            let mut rest2 = frame.cols.clone();
                            rest2.remove(i.max(j));
                            rest2.remove(i.min(j));
                            if Self::all_deps(&rest2).len() == required.len() || self.haz("drop_agg") {
                                frame.cols.remove(i.max(j));
                                frame.cols.remove(i.min(j));
                                return_two = Some(Step::SelectExcept(vec![ColRef { idx: i, text: text.clone() }, ColRef { idx: j, text: text2 }]));
                            }
                        }
                        if let Some(st) = return_two.take() {
                            Some(st)
                        } else {
                            frame.cols.remove(i);
                            Some(Step::SelectExcept(vec![ColRef { idx: i, text }]))
                        }
                    } else {
                        None
                    }
                }
            };
            if self.win_chain > 0 {
                self.win_chain -= 1;
            }
            if ord.ordered {
                let dirtying = match &st {
                    Some(Step::Select(_)) | Some(Step::SelectExcept(_)) | Some(Step::Join { .. }) | Some(Step::Window { .. }) => true,
                    Some(Step::Derive(items)) => items.iter().any(|i| i.expr.has_window()),
                    Some(Step::Filter(e)) => e.has_window(),
                    _ => choice == 5,
                };
                if dirtying {
                    ord.dirty = true;
                }
            }
            if choice == 4 && ord.ordered && ord.dirty {
                self.touch("take_far_from_sort");
            }
            if matches!(st, Some(Step::Select(_)) | Some(Step::SelectExcept(_))) && ord.ordered {
                let names: Vec<&String> = frame.cols.iter().filter_map(|c| c.name.as_ref()).collect();
                if ord.key_names.iter().any(|k| !names.contains(&k)) {
                    ord.key_dropped = true;
                }
            }
            if let Some(s) = st {
                steps.push(s);
            }
        }
        steps
    }

    pub fn gen_pipeline(&mut self, nsteps: usize, depth: usize) -> (Pipeline, Frame, Ord) {
        // source
        // (under the sorted_let hazard let-tables are read more often, so that one sorted
        // let-table gets several readers)
        let use_let = !self.lets.is_empty() && (self.t.chance(1, 3) || (self.haz("sorted_let") && self.t.chance(1, 2)));
        let scaffold = if self.in_sub { None } else { self.main_scaffold.take() };
        let use_let = use_let || scaffold.is_some();
        let (source, mut frame, mut ord) = if use_let {
            let mut li = self.t.choose(self.lets.len());
            if let Some((l, _)) = scaffold {
                li = l;
            }
            let (mut f, o) = self.let_frames[li].clone();
            let lname = self.lets[li].name.clone();
            let alias = if self.t.chance(1, 5) {
                Some(self.fresh_rel())
            } else {
                None
            };
            let rel = alias.clone().unwrap_or(lname);
            for c in f.cols.iter_mut() {
                c.rel = Some(rel.clone());
            }
            if !f.wild_rels.is_empty() {
                f.wild_rels = vec![rel];
            }
            (
                Source {
                    kind: SrcKind::Let(li),
                    alias,
                },
                f,
                o,
            )
        } else {
            let ti = self.t.choose(self.db.tables.len());
            let tname = self.db.tables[ti].name.clone();
            let alias = if self.t.chance(1, 6) {
                Some(self.fresh_rel())
            } else {
                None
            };
            let rel = alias.clone().unwrap_or(tname.clone());
            let f = self.table_frame(&tname, &rel, true);
            (
                Source {
                    kind: SrcKind::Table(tname),
                    alias,
                },
                f,
                Ord::default(),
            )
        };
        let mut steps = vec![];
        // known-frame mode: begin with a select of (a subset of) the columns
        // wildcard relations only in the main pipeline: a derive inside a wildcard let-table loses
        // its name (finding C07-wildcard-let-derive-name)
        let wild_ok = self.wild_prog && (!self.in_sub || self.haz("wild_let")) && self.t.chance(2, 3);
        if wild_ok && self.in_sub { self.touch("wild_let"); }
        if !wild_ok && !frame.wild_rels.is_empty() {
            // select all columns, in order, possibly dropping some
            let mut items = vec![];
            let mut nf = Frame::default();
            for i in 0..frame.cols.len() {
                if frame.cols[i].name.as_ref() != Some(&self.names.id) && self.t.chance(1, 6) {
                    continue;
                }
                if let Some(text) = self.ref_text(&frame, i) {
                    items.push(Item {
                        alias: None,
                        expr: Expr::Col(ColRef { idx: i, text }),
                    });
                    nf.cols.push(frame.cols[i].clone());
                }
            }
            if items.is_empty() {
                for i in 0..frame.cols.len() {
                    if let Some(text) = self.ref_text(&frame, i) {
                        items.push(Item {
                            alias: None,
                            expr: Expr::Col(ColRef { idx: i, text }),
                        });
                        nf.cols.push(frame.cols[i].clone());
                    }
                }
            }
            if !items.is_empty() {
                steps.push(Step::Select(items));
                frame = nf;
            }
        }
        let saved = (self.cur_src_let, self.after_append, self.simple_so_far);
        self.cur_src_let = use_let;
        self.after_append = false;
        self.simple_so_far = !use_let;
        let saved_gt = self.had_group_take;
        self.had_group_take = false;
        let saved_t = (self.had_take, self.ntakes);
        let saved_rs = self.resorted_after_take;
        self.had_take = false;
        self.ntakes = 0;
        self.resorted_after_take = false;
        if let Some((_, r)) = scaffold {
            // first reader: a slice of the sorted let-table; second reader: the joined let-table
            if ord.ordered && ord.total {
                steps.push(self.gen_take());
                self.had_take = true;
                self.ntakes += 1;
            }
            self.force_right_let = Some(r);
            let js = self.gen_join(&mut frame, &mut ord, 0);
            self.force_right_let = None;
            steps.extend(js);
        }
        // a reader of a sorted let-table that sorts again, takes a slice and then groups: the order
        // inherited from the let-table and the new one are both around when the take is emitted
        let mut nsteps = nsteps;
        if scaffold.is_none() && !self.in_sub && !self.cfg.script.is_empty() {
            self.forced = self.cfg.script.clone();
            nsteps = nsteps.max(self.forced.len() + 1);
        } else if scaffold.is_none() && !self.in_sub && use_let && ord.ordered && self.haz("sorted_let") && self.t.chance(1, 3) {
            self.forced = vec![3, 4, 7];
            nsteps = nsteps.max(3);
        }
        let more = self.gen_steps(&mut frame, &mut ord, nsteps, depth);
        self.forced.clear();
        if self.after_append && !more.is_empty() {
            // anything downstream of a pipeline containing an append may prune its columns
        }
        let had_append = self.after_append;
        self.cur_src_let = saved.0;
        self.after_append = saved.1;
        self.simple_so_far = saved.2;
        self.had_group_take = saved_gt;
        self.had_take = saved_t.0;
        self.ntakes = saved_t.1;
        self.resorted_after_take = saved_rs;
        let _ = had_append;
        steps.extend(more);
        (Pipeline { source, steps }, frame, ord)
    }

    pub fn gen_lets(&mut self) {
        if !self.cfg.allow_lets {
            return;
        }
        let mut n = self.t.weighted(&[5, 3, 2]);
        // sometimes the first two let-tables live in two modules under the same local name
        // (`ma.lt`, `mb.lt`): both become CTEs whose given names clash
        self.module_scheme = !self.cfg.hazard_names && self.t.chance(1, 6);
        if self.module_scheme {
            n = n.max(2);
        }
        for i in 0..n {
            let ns = 1 + self.t.choose(3);
            self.in_sub = true;
            let (pipe, frame, ord) = self.gen_pipeline(ns, 0);
            self.in_sub = false;
            let mut name = self.names.lets.get(i).cloned().unwrap_or_else(|| format!("l{i}"));
            let mut module = None;
            let mut into = self.t.chance(1, 4);
            if self.module_scheme && i < 2 {
                name = "lt".to_string();
                module = Some(if i == 0 { "ma" } else { "mb" }.to_string());
                into = false;
            }
            self.lets.push(LetDef {
                name,
                pipe,
                into,
                module,
            });
            self.let_frames.push((frame, ord));
        }
    }

    pub fn gen_prog(mut self) -> (Db, Prog, Frame, Vec<&'static str>) {
        self.gen_db();
        self.wild_prog = self.cfg.allow_wild && (self.t.chance(1, 4) || self.haz_wild_join());
        self.gen_funcs();
        self.gen_lets();
        if self.haz("sorted_let") && self.t.chance(1, 2) {
            // one sorted let-table with two live readers (see `main_scaffold`)
            let cands: Vec<usize> = (0..self.lets.len())
                .filter(|i| {
                    let (f, o) = &self.let_frames[*i];
                    o.ordered && o.total && f.wild_rels.is_empty() && f.cols.iter().all(|c| c.name.is_some())
                })
                .collect();
            if !cands.is_empty() {
                let li = cands[self.t.choose(cands.len())];
                let take = self.gen_take();
                let (f, o) = self.let_frames[li].clone();
                let name = format!("lr{}", self.lets.len());
                self.lets.push(LetDef {
                    name,
                    pipe: Pipeline {
                        source: Source { kind: SrcKind::Let(li), alias: None },
                        steps: vec![take],
                    },
                    into: false,
                    module: None,
                });
                self.let_frames.push((f, o));
                self.main_scaffold = Some((li, self.lets.len() - 1));
            }
        }
        if self.module_scheme && self.main_scaffold.is_none() && self.lets.len() >= 2 && self.t.chance(2, 3) {
            // the main pipeline reads both same-named module let-tables
            let pos = |m: &str| self.lets.iter().position(|l| l.module.as_deref() == Some(m));
            if let (Some(a), Some(b)) = (pos("ma"), pos("mb")) {
                self.main_scaffold = Some((a, b));
            }
        }
        let ns = self.t.choose(self.cfg.max_steps + 1);
        let (main, frame, _ord) = self.gen_pipeline(ns, 1);
        let surface = Surface {
            newlines: self.t.chance(1, 2),
            redundant_parens: false,
            bare_in_module: false,
        };
        (
            self.db,
            Prog {
                funcs: self.funcs,
                lets: self.lets,
                main,
                surface,
            },
            frame,
            self.touched,
        )
    }
}
