//! In-process SQLite execution of emitted SQL against the generated database instance.

use rusqlite::types::ValueRef;
use rusqlite::Connection;

use super::ast::Db;
use super::val::Val;

pub struct SqlResult {
    pub cols: Vec<String>,
    pub rows: Vec<Vec<Val>>,
}

#[derive(Debug, Clone)]
pub enum SqlErr {
    /// statement does not parse / bind against the schema
    Prepare(String),
    /// run-time error while stepping
    Step(String),
    Setup(String),
}

impl SqlErr {
    pub fn msg(&self) -> &str {
        match self {
            SqlErr::Prepare(s) | SqlErr::Step(s) | SqlErr::Setup(s) => s,
        }
    }
}

pub fn qident(s: &str) -> String {
    format!("\"{}\"", s.replace('"', "\"\""))
}

pub fn open(db: &Db) -> Result<Connection, SqlErr> {
    let conn = Connection::open_in_memory().map_err(|e| SqlErr::Setup(e.to_string()))?;
    for t in &db.tables {
        let cols: Vec<String> = t
            .cols
            .iter()
            .map(|c| format!("{} {}", qident(&c.name), c.ty.sql()))
            .collect();
        let ddl = format!("CREATE TABLE {} ({})", qident(&t.name), cols.join(", "));
        conn.execute(&ddl, [])
            .map_err(|e| SqlErr::Setup(format!("{ddl}: {e}")))?;
        if t.rows.is_empty() {
            continue;
        }
        let ph: Vec<String> = (1..=t.cols.len()).map(|i| format!("?{i}")).collect();
        let ins = format!("INSERT INTO {} VALUES ({})", qident(&t.name), ph.join(", "));
        let mut st = conn
            .prepare(&ins)
            .map_err(|e| SqlErr::Setup(e.to_string()))?;
        for r in &t.rows {
            let params: Vec<rusqlite::types::Value> = r
                .iter()
                .map(|v| match v {
                    Val::Null => rusqlite::types::Value::Null,
                    Val::Int(i) => rusqlite::types::Value::Integer(*i),
                    Val::Float(f) => rusqlite::types::Value::Real(*f),
                    Val::Text(s) => rusqlite::types::Value::Text(s.clone()),
                    Val::Bool(b) => rusqlite::types::Value::Integer(*b as i64),
                    Val::Either(..) => rusqlite::types::Value::Null,
                })
                .collect();
            st.execute(rusqlite::params_from_iter(params))
                .map_err(|e| SqlErr::Setup(e.to_string()))?;
        }
    }
    Ok(conn)
}

pub fn query(conn: &Connection, sql: &str) -> Result<SqlResult, SqlErr> {
    let mut st = conn
        .prepare(sql)
        .map_err(|e| SqlErr::Prepare(e.to_string()))?;
    let n = st.column_count();
    let cols: Vec<String> = (0..n)
        .map(|i| st.column_name(i).unwrap_or("?").to_string())
        .collect();
    let mut rows = st.raw_query();
    let mut out = vec![];
    loop {
        match rows.next() {
            Ok(Some(r)) => {
                let mut vals = Vec::with_capacity(n);
                for i in 0..n {
                    let v = match r.get_ref(i) {
                        Ok(ValueRef::Null) => Val::Null,
                        Ok(ValueRef::Integer(i)) => Val::Int(i),
                        Ok(ValueRef::Real(f)) => Val::Float(f),
                        Ok(ValueRef::Text(t)) => Val::Text(String::from_utf8_lossy(t).into_owned()),
                        Ok(ValueRef::Blob(b)) => Val::Text(format!("<blob {} bytes>", b.len())),
                        Err(e) => return Err(SqlErr::Step(e.to_string())),
                    };
                    vals.push(v);
                }
                out.push(vals);
                if out.len() > 100_000 {
                    return Err(SqlErr::Step("more than 100000 rows".into()));
                }
            }
            Ok(None) => break,
            Err(e) => return Err(SqlErr::Step(e.to_string())),
        }
    }
    Ok(SqlResult { cols, rows: out })
}

/// Like `run`, for callers that evaluate many read-only statements against one unchanging instance
/// (C02's value table): the connection is kept per thread and rebuilt only when `tag` changes.
pub fn run_cached(tag: u64, db: &Db, sql: &str) -> Result<SqlResult, SqlErr> {
    thread_local! {
        static CONN: std::cell::RefCell<Option<(u64, Connection)>> = const { std::cell::RefCell::new(None) };
    }
    CONN.with(|c| {
        let mut c = c.borrow_mut();
        if c.as_ref().map(|(t, _)| *t != tag).unwrap_or(true) {
            *c = Some((tag, open(db)?));
        }
        query(&c.as_ref().unwrap().1, sql)
    })
}

pub fn run(db: &Db, sql: &str) -> Result<SqlResult, SqlErr> {
    let conn = open(db)?;
    query(&conn, sql)
}

/// The same statement with every optional query-planner optimisation of SQLite switched off
/// (`SQLITE_TESTCTRL_OPTIMIZATIONS`). The result of a statement does not depend on the planner, so
/// a difference between `run` and this is a defect of the engine, not of the SQL text. (Observed
/// with the bundled 3.49.1: `SELECT id, COUNT(*) FROM (SELECT id FROM t ORDER BY id LIMIT 2) GROUP BY
/// id ORDER BY id DESC` returns ascending ids.)
pub fn run_unoptimized(db: &Db, sql: &str) -> Result<SqlResult, SqlErr> {
    let conn = open(db)?;
    unsafe {
        rusqlite::ffi::sqlite3_test_control(rusqlite::ffi::SQLITE_TESTCTRL_OPTIMIZATIONS, conn.handle(), 0xFFFF_FFFFu32);
    }
    query(&conn, sql)
}
