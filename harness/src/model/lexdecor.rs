//! Lexically hazardous decoration of a generated program: a let-table over a table and columns
//! with hazardous identifiers (quotes, backslashes, dots, spaces, non-ASCII) that selects string
//! literals with hazardous values (control characters, quotes, escapes), joined at the end of the
//! main pipeline. Used by the checks that compare texts / trees of the same program (C14, C15),
//! which never execute it.

use crate::tape::Tape;

const IDENT_PARTS: &[&str] = &[
    "a", "b", "Z", "_", "1", " ", ".", "\"", "\\", "'", "-", "é", "漢", "$", "*", "/", "#", "{", "}", "(", "select", "\\n", "\\\"", ":",
];

/// an identifier to be written in backticks (never contains a backtick or a newline)
pub fn hazard_ident(t: &mut Tape) -> String {
    let n = 1 + t.choose(5);
    let mut s = String::new();
    for _ in 0..n {
        s.push_str(*t.pick(IDENT_PARTS));
    }
    if s.trim().is_empty() {
        s.push('q');
    }
    s
}

const STR_PARTS: &[&str] = &[
    "a", "f", "0", "9", " ", "\"", "'", "\\", "{", "}", "é", "😀", "\u{1}", "\u{7}", "\u{8}", "\u{b}", "\u{c}", "\u{e}", "\u{f}", "\u{10}", "\u{1b}",
    "\u{1f}", "\u{7f}", "\u{80}", "\u{a0}", "\n", "\r", "\t", "--", "x41", "u{41}",
];

pub fn hazard_string(t: &mut Tape) -> String {
    let n = t.choose(7);
    let mut s = String::new();
    for _ in 0..n {
        s.push_str(*t.pick(STR_PARTS));
    }
    s
}

/// a double- or single-quoted PRQL literal for `v` (escapes from strings.md: `\\ \n \r \t \" \'
/// \xHH \u{H..}`); control characters are written raw, as `\xHH` or as `\u{H}`
pub fn spell_string(t: &mut Tape, v: &str) -> String {
    let q = if t.chance(1, 2) { '"' } else { '\'' };
    let mut o = String::new();
    o.push(q);
    for c in v.chars() {
        match c {
            '\\' => o.push_str("\\\\"),
            // a line break may be written as an escape or as a physical line break inside the quotes
            '\n' => {
                if t.chance(1, 3) {
                    o.push('\n')
                } else {
                    o.push_str("\\n")
                }
            }
            '\r' => o.push_str("\\r"),
            '\t' => o.push_str("\\t"),
            c if c == q => {
                o.push('\\');
                o.push(c)
            }
            c if (c as u32) < 0x20 || c as u32 == 0x7f => match t.choose(3) {
                0 => o.push(c),
                1 => o.push_str(&format!("\\x{:02x}", c as u32)),
                _ => o.push_str(&format!("\\u{{{:x}}}", c as u32)),
            },
            c => o.push(c),
        }
    }
    o.push(q);
    o
}

/// `src` with the decoration added (prefix let-table + trailing join)
pub fn decorate(t: &mut Tape, src: &str) -> String {
    let table = hazard_ident(t);
    let c1 = hazard_ident(t);
    let c2 = hazard_ident(t);
    let mut alias = hazard_ident(t);
    if alias == "*" && !t.chance(1, 4) {
        // an alias that is exactly `*` is a recorded finding (C14-star-alias-unquoted)
        alias.push('a');
    }
    let v1 = hazard_string(t);
    let v2 = hazard_string(t);
    let s1 = spell_string(t, &v1);
    let s2 = spell_string(t, &v2);
    let qual = if t.chance(1, 2) { format!("`{table}`.") } else { String::new() };
    let prefix = format!(
        "let zlex = (from `{table}` | select {{`{alias}` = {qual}`{c1}`, `{c2}`, zs1 = {s1}}} | filter `{c2}` != {s2})\n"
    );
    format!("{prefix}{} | join side:left zlex (true)\n", src.trim_end())
}

/// the same source with Windows line endings (also inside string literals that span lines)
pub fn crlf(src: &str) -> String {
    src.replace("\r\n", "\n").replace('\n', "\r\n")
}

/// Renames one to three generated names (`c3`, `id`, `t1`, `l0`, `r2` ...) throughout the program
/// text to longer ones, so that every construct is met at many different columns (the formatter
/// decides per line what still fits). No string literal of the model contains such a word.
pub fn stretch(t: &mut Tape, src: &str) -> String {
    let re = regex::Regex::new(r"\b(c[0-9]+|id|t[0-9]|l[0-9]|r[0-9])\b").unwrap();
    let mut names: Vec<String> = vec![];
    for m in re.find_iter(src) {
        if !names.iter().any(|n| n == m.as_str()) {
            names.push(m.as_str().to_string());
        }
    }
    if names.is_empty() {
        return src.to_string();
    }
    let mut out = src.to_string();
    for _ in 0..1 + t.choose(3) {
        let n = names[t.choose(names.len())].clone();
        let k = 1 + t.choose(45);
        let long = format!("{n}_{}", "x".repeat(k));
        let one = regex::Regex::new(&format!(r"\b{}\b", regex::escape(&n))).unwrap();
        out = one.replace_all(&out, long.as_str()).into_owned();
    }
    out
}
