//! Renders abstract programs as PRQL text. Parenthesisation follows the *documented*
//! precedence table only (operators.md); it is written independently of prqlc's formatter.

use super::ast::*;
use super::val::Val;

const KEYWORDS: &[&str] = &[
    "let", "into", "case", "prql", "type", "module", "internal", "func", "import", "enum", "true",
    "false", "null", "this", "that", "std", "from", "select", "derive", "filter", "sort", "take",
    "join", "group", "window", "aggregate", "append", "in",
];

pub fn is_plain_ident(s: &str) -> bool {
    let mut cs = s.chars();
    match cs.next() {
        Some(c) if c.is_ascii_alphabetic() || c == '_' => {}
        _ => return false,
    }
    s.chars().all(|c| c.is_ascii_alphanumeric() || c == '_') && !KEYWORDS.contains(&s)
}

/// One identifier part, backticked unless plain.
pub fn ident(s: &str) -> String {
    if is_plain_ident(s) {
        s.to_string()
    } else {
        format!("`{s}`")
    }
}

pub fn string_lit(s: &str) -> String {
    // double-quoted with the documented escapes
    let mut o = String::from("\"");
    for c in s.chars() {
        match c {
            '"' => o.push_str("\\\""),
            '\\' => o.push_str("\\\\"),
            '\n' => o.push_str("\\n"),
            '\r' => o.push_str("\\r"),
            '\t' => o.push_str("\\t"),
            c => o.push(c),
        }
    }
    o.push('"');
    o
}

pub fn float_lit(f: f64) -> String {
    let s = format!("{f:?}");
    if s.contains('e') || s.contains("inf") || s.contains("NaN") {
        // keep generated floats in plain decimal notation
        format!("{f:.6}")
    } else {
        s
    }
}

pub fn lit(v: &Val) -> String {
    match v {
        Val::Null => "null".into(),
        Val::Int(i) => {
            if *i < 0 {
                format!("({i})")
            } else {
                i.to_string()
            }
        }
        Val::Float(f) => {
            if *f < 0.0 {
                format!("({})", float_lit(*f))
            } else {
                float_lit(*f)
            }
        }
        Val::Text(s) => string_lit(s),
        Val::Bool(b) => b.to_string(),
        Val::Either(a, _) => lit(a),
    }
}

/// precedence level of an expression as printed (0 = atom)
fn level(e: &Expr) -> u8 {
    match e {
        Expr::Bin(op, ..) => op.level(),
        Expr::Un(..) => 2,
        // function calls are always printed inside their own parentheses
        _ => 0,
    }
}

pub struct Printer<'a> {
    pub funcs: &'a [FuncDef],
    /// see `Surface::redundant_parens`
    pub redundant: bool,
    /// the module whose body is being printed, when its own declarations are referred to bare
    pub cur_module: Option<String>,
}

impl<'a> Printer<'a> {
    pub fn expr(&self, e: &Expr) -> String {
        match e {
            Expr::Col(c) => c.text.clone(),
            Expr::Lit(v) => lit(v),
            Expr::Param(_, name) => name.clone(),
            Expr::Paren(inner) => format!("({})", self.expr(inner)),
            Expr::Un(op, inner) => {
                let s = self.expr(inner);
                if level(inner) >= 2 {
                    format!("{}({})", op.sym(), s)
                } else {
                    format!("{}{}", op.sym(), s)
                }
            }
            Expr::Bin(op, l, r) => {
                let lv = op.level();
                let (ll, rl) = (level(l), level(r));
                let lp = ll > lv || (ll == lv && (op.right_assoc() || self.redundant));
                let rp = rl > lv || (rl == lv && (!op.right_assoc() || self.redundant));
                let ls = self.expr(l);
                let rs = self.expr(r);
                format!(
                    "{} {} {}",
                    if lp { format!("({ls})") } else { ls },
                    op.sym(),
                    if rp { format!("({rs})") } else { rs }
                )
            }
            Expr::Case(bs) => {
                let parts: Vec<String> = bs
                    .iter()
                    .map(|(c, v)| format!("{} => {}", self.expr(c), self.expr(v)))
                    .collect();
                format!("case [{}]", parts.join(", "))
            }
            Expr::In(x, lo, hi) => {
                let b = |o: &Option<Box<Expr>>| o.as_ref().map(|e| self.arg(e)).unwrap_or_default();
                format!("({} | in {}..{})", self.expr(x), b(lo), b(hi))
            }
            Expr::FStr(parts) => {
                let mut s = String::from("f\"");
                for p in parts {
                    match p {
                        FPart::Text(t) => {
                            for c in t.chars() {
                                match c {
                                    '{' => s.push_str("{{"),
                                    '}' => s.push_str("}}"),
                                    '"' => s.push_str("\\\""),
                                    '\\' => s.push_str("\\\\"),
                                    c => s.push(c),
                                }
                            }
                        }
                        FPart::Expr(e) => {
                            s.push('{');
                            s.push_str(&self.expr(e));
                            s.push('}');
                        }
                    }
                }
                s.push('"');
                s
            }
            Expr::Call {
                func,
                args,
                named,
                style,
            } => {
                let f = &self.funcs[*func];
                let fname = match &f.module {
                    Some(m) if self.cur_module.as_ref() != Some(m) => format!("{m}.{}", f.name),
                    _ => f.name.clone(),
                };
                let mut parts: Vec<String> = vec![fname];
                for (n, a) in named {
                    parts.push(format!("{n}:{}", self.arg(a)));
                }
                let (head, piped) = match style {
                    CallStyle::Piped if !args.is_empty() => {
                        (&args[..args.len() - 1], Some(&args[args.len() - 1]))
                    }
                    _ => (&args[..], None),
                };
                for a in head {
                    parts.push(self.arg(a));
                }
                match piped {
                    Some(p) => format!("({} | {})", self.expr(p), parts.join(" ")),
                    None => format!("({})", parts.join(" ")),
                }
            }
            Expr::Agg(f, a) => format!("({} {})", f.name(), self.arg(a)),
            Expr::Win(f, args) => {
                let parts: Vec<String> = args.iter().map(|a| self.arg(a)).collect();
                format!("({} {})", f.name(), parts.join(" "))
            }
        }
    }

    /// expression in function-argument position: anything but an atom gets parentheses
    pub fn arg(&self, e: &Expr) -> String {
        let s = self.expr(e);
        match e {
            Expr::Col(_) | Expr::Param(..) | Expr::Paren(_) | Expr::FStr(_) => s,
            Expr::Lit(_) => s,
            Expr::Call { .. } | Expr::Agg(..) | Expr::Win(..) | Expr::In(..) => s, // already parenthesised
            _ => format!("({s})"),
        }
    }

    fn items(&self, items: &[Item]) -> String {
        let parts: Vec<String> = items
            .iter()
            .map(|it| match &it.alias {
                Some(a) => format!("{} = {}", ident(a), self.expr(&it.expr)),
                None => self.expr(&it.expr),
            })
            .collect();
        format!("{{{}}}", parts.join(", "))
    }

    pub fn source(&self, s: &Source, lets: &[LetDef], sep: &str) -> String {
        let body = match &s.kind {
            SrcKind::Table(t) => ident(t),
            SrcKind::Let(i) => {
                let l = &lets[*i];
                // (always by path: inside a module a bare name in `from` denotes a database table,
                // not the sibling let-table)
                match &l.module {
                    Some(m) => format!("{m}.{}", ident(&l.name)),
                    None => ident(&l.name),
                }
            }
            SrcKind::Literal { cols, rows } => {
                let rs: Vec<String> = rows
                    .iter()
                    .map(|r| {
                        let cells: Vec<String> = cols
                            .iter()
                            .zip(r)
                            .map(|(c, v)| format!("{} = {}", ident(c), lit_bare(v)))
                            .collect();
                        format!("{{{}}}", cells.join(", "))
                    })
                    .collect();
                format!("[{}]", rs.join(", "))
            }
            SrcKind::Sub(p) => format!("({})", self.pipeline(p, lets, " | ")),
        };
        let _ = sep;
        match &s.alias {
            Some(a) => format!("{} = {}", ident(a), body),
            None => body,
        }
    }

    pub fn step(&self, st: &Step, lets: &[LetDef], sep: &str) -> String {
        match st {
            Step::Select(items) => format!("select {}", self.items(items)),
            Step::SelectExcept(cols) => format!(
                "select !{{{}}}",
                cols.iter().map(|c| c.text.clone()).collect::<Vec<_>>().join(", ")
            ),
            Step::Derive(items) => format!("derive {}", self.items(items)),
            Step::Filter(e) => {
                // a bare argument starting with a sign would be parsed as `filter - x` (function-calls.md)
                let s = self.expr(e);
                if s.starts_with('-') || s.starts_with('+') {
                    format!("filter ({s})")
                } else {
                    format!("filter {s}")
                }
            }
            Step::Sort(keys) => {
                let parts: Vec<String> = keys
                    .iter()
                    .map(|k| {
                        let s = self.arg(&k.expr);
                        if k.desc {
                            format!("-{s}")
                        } else if k.explicit_plus {
                            format!("+{s}")
                        } else {
                            s
                        }
                    })
                    .collect();
                format!("sort {{{}}}", parts.join(", "))
            }
            Step::Take { lo, hi, single } => {
                if *single {
                    format!("take {}", hi.unwrap_or(0))
                } else {
                    format!(
                        "take {}..{}",
                        lo.map(|x| x.to_string()).unwrap_or_default(),
                        hi.map(|x| x.to_string()).unwrap_or_default()
                    )
                }
            }
            Step::Join { side, right, cond } => {
                let side_s = match side {
                    Side::Inner => "",
                    Side::Left => "side:left ",
                    Side::Right => "side:right ",
                    Side::Full => "side:full ",
                };
                let c = match cond {
                    JoinCond::Expr(e) => self.expr(e),
                    JoinCond::SelfEq(ps) => ps
                        .iter()
                        .map(|(_, _, n)| format!("=={}", ident(n)))
                        .collect::<Vec<_>>()
                        .join(" && "),
                };
                format!("join {}{} ({})", side_s, self.source(right, lets, sep), c)
            }
            Step::Aggregate(items) => format!("aggregate {}", self.items(items)),
            Step::Group { keys, inner } => {
                let ks: Vec<String> = keys.iter().map(|k| k.text.clone()).collect();
                // every column of the frame as key, spelled `this` (first key text `this`)
                if ks.first().map(|k| k == "this").unwrap_or(false) {
                    return format!("group this ({})", self.steps(inner, lets, " | "));
                }
                format!("group {{{}}} ({})", ks.join(", "), self.steps(inner, lets, " | "))
            }
            Step::Window { frame, inner } => {
                let b = |o: &Option<i64>| o.map(|x| x.to_string()).unwrap_or_default();
                let f = match frame {
                    WFrame::Default => String::new(),
                    WFrame::Rows(a, c) => format!("rows:{}..{} ", b(a), b(c)),
                    WFrame::Range(a, c) => format!("range:{}..{} ", b(a), b(c)),
                    WFrame::Rolling(n) => format!("rolling:{n} "),
                    WFrame::Expanding => "expanding:true ".to_string(),
                };
                format!("window {}({})", f, self.steps(inner, lets, " | "))
            }
            Step::Append(src) => format!("append {}", self.source_as_arg(src, lets)),
        }
    }

    fn source_as_arg(&self, s: &Source, lets: &[LetDef]) -> String {
        let t = self.source(s, lets, " | ");
        match &s.kind {
            SrcKind::Sub(_) | SrcKind::Literal { .. } | SrcKind::Table(_) | SrcKind::Let(_) => t,
        }
    }

    pub fn steps(&self, steps: &[Step], lets: &[LetDef], sep: &str) -> String {
        steps
            .iter()
            .map(|s| self.step(s, lets, sep))
            .collect::<Vec<_>>()
            .join(sep)
    }

    pub fn pipeline(&self, p: &Pipeline, lets: &[LetDef], sep: &str) -> String {
        let mut s = format!("from {}", self.source(&p.source, lets, sep));
        if let SrcKind::Literal { .. } = p.source.kind {
            // `from [..]` is valid; keep
        }
        for st in &p.steps {
            s.push_str(sep);
            s.push_str(&self.step(st, lets, sep));
        }
        s
    }
}

fn lit_bare(v: &Val) -> String {
    match v {
        Val::Int(i) => i.to_string(),
        Val::Float(f) => float_lit(*f),
        other => lit(other),
    }
}

pub fn func_def(f: &FuncDef, funcs: &[FuncDef]) -> String {
    let p = Printer { funcs, redundant: false, cur_module: None };
    let params: Vec<String> = f
        .params
        .iter()
        .map(|pa| match &pa.default {
            Some(d) => format!("{}:{}", pa.name, p.arg(d)),
            None => pa.name.clone(),
        })
        .collect();
    format!("let {} = {} -> {}", f.name, params.join(" "), p.expr(&f.body))
}

pub fn program(prog: &Prog) -> String {
    let p = Printer { funcs: &prog.funcs, redundant: prog.surface.redundant_parens, cur_module: None };
    let sep = if prog.surface.newlines { "\n" } else { " | " };
    let mut out = String::new();
    // modules first
    // (in the declaration order of the let-tables: a later let-table may read an earlier one)
    let mut modules: Vec<String> = vec![];
    for l in &prog.lets {
        if let Some(m) = &l.module {
            if !modules.contains(m) {
                modules.push(m.clone());
            }
        }
    }
    for f in &prog.funcs {
        if let Some(m) = &f.module {
            if !modules.contains(m) {
                modules.push(m.clone());
            }
        }
    }
    for m in &modules {
        out.push_str(&format!("module {m} {{\n"));
        let pm = Printer {
            funcs: &prog.funcs,
            redundant: prog.surface.redundant_parens,
            cur_module: if prog.surface.bare_in_module { Some(m.clone()) } else { None },
        };
        for f in prog.funcs.iter().filter(|f| f.module.as_ref() == Some(m)) {
            out.push_str(&format!("  {}\n", func_def(f, &prog.funcs)));
        }
        for l in prog.lets.iter().filter(|l| l.module.as_ref() == Some(m)) {
            out.push_str(&format!(
                "  let {} = ({})\n",
                ident(&l.name),
                pm.pipeline(&l.pipe, &prog.lets, " | ")
            ));
        }
        out.push_str("}\n");
    }
    for f in prog.funcs.iter().filter(|f| f.module.is_none()) {
        out.push_str(&func_def(f, &prog.funcs));
        out.push('\n');
    }
    for l in prog.lets.iter().filter(|l| l.module.is_none()) {
        if l.into {
            out.push_str(&p.pipeline(&l.pipe, &prog.lets, sep));
            out.push_str(&format!("{sep}into {}\n\n", ident(&l.name)));
        } else {
            out.push_str(&format!(
                "let {} = ({})\n",
                ident(&l.name),
                p.pipeline(&l.pipe, &prog.lets, sep)
            ));
        }
    }
    out.push_str(&p.pipeline(&prog.main, &prog.lets, sep));
    out.push('\n');
    out
}
