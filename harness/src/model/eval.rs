//! Reference interpreter of abstract programs, written from the PRQL book
//! (web/book/src/reference/**). Shares no code with prqlc. Where the documentation leaves
//! a result open it returns `Err(Amb(..))` (case is ambiguous) instead of guessing.

use std::cmp::Ordering;

use super::ast::*;
use super::val::*;

#[derive(Debug, Clone)]
pub struct Amb(pub String);

type R<T> = Result<T, Amb>;

fn amb<T>(s: &str) -> R<T> {
    Err(Amb(s.to_string()))
}

#[derive(Clone, Debug)]
pub struct Row {
    pub vals: Vec<Val>,
    /// values of the sort keys in effect (direction in Rel.order)
    pub okey: Vec<Val>,
}

#[derive(Clone, Debug)]
pub struct Rel {
    pub ncols: usize,
    pub rows: Vec<Row>,
    /// desc flags of the sort in effect; empty = no order
    pub order: Vec<bool>,
}

impl Rel {
    pub fn ordered(&self) -> bool {
        !self.order.is_empty()
    }
    fn unordered(mut self) -> Rel {
        self.order.clear();
        for r in &mut self.rows {
            r.okey.clear();
        }
        self
    }
}

/// Findings whose condition was met while evaluating (the interpreter records which operator
/// instances hit a known-defect condition; used to attribute a mismatch to a finding).
#[derive(Default, Debug, Clone)]
pub struct Touched {
    /// `//` evaluated with two integer operands, 0 < |l| < |r|
    pub divi_small_int: bool,
}

pub struct Interp<'a> {
    pub db: &'a Db,
    pub prog: &'a Prog,
    pub touched: std::cell::RefCell<Touched>,
}

/// Context for aggregation / window functions.
#[derive(Clone, Copy)]
struct Seg<'a> {
    rows: &'a [Row],
    /// index of the current row, None in `aggregate`
    cur: Option<usize>,
    frame: WFrame,
    order: &'a [bool],
}

struct Env<'a> {
    row: Option<&'a [Val]>,
    seg: Option<Seg<'a>>,
    params: &'a [Val],
}

pub fn cmp_okey(a: &[Val], b: &[Val], desc: &[bool]) -> Ordering {
    for ((x, y), d) in a.iter().zip(b).zip(desc) {
        let o = order_cmp(x, y);
        let o = if *d { o.reverse() } else { o };
        if o != Ordering::Equal {
            return o;
        }
    }
    Ordering::Equal
}

fn to_num(v: &Val) -> Option<f64> {
    v.as_f64()
}

fn arith_int(op: BinOp, a: i64, b: i64) -> R<Val> {
    let r = match op {
        BinOp::Add => a.checked_add(b),
        BinOp::Sub => a.checked_sub(b),
        BinOp::Mul => a.checked_mul(b),
        _ => unreachable!(),
    };
    match r {
        Some(v) => Ok(Val::Int(v)),
        None => amb("integer overflow"),
    }
}

impl<'a> Interp<'a> {
    pub fn new(db: &'a Db, prog: &'a Prog) -> Self {
        Interp {
            db,
            prog,
            touched: Default::default(),
        }
    }

    pub fn run(&self) -> R<Rel> {
        self.pipeline(&self.prog.main)
    }

    // ------------------------------------------------------------------ scalar expressions

    pub fn scalar(&self, e: &Expr, row: &[Val]) -> R<Val> {
        self.eval(
            e,
            &Env {
                row: Some(row),
                seg: None,
                params: &[],
            },
        )
    }

    /// sub-expression value: a value the reference leaves open may not be consumed
    fn sub(&self, e: &Expr, env: &Env) -> R<Val> {
        match self.eval(e, env)? {
            Val::Either(..) => amb("open value consumed by an operator"),
            v => Ok(v),
        }
    }

    fn eval(&self, e: &Expr, env: &Env) -> R<Val> {
        match e {
            Expr::Col(c) => match env.row {
                Some(r) => match r.get(c.idx) {
                    Some(v) => match v {
                        Val::Either(..) => amb("open value consumed"),
                        v => Ok(v.clone()),
                    },
                    None => Err(Amb(format!("model bug: column index {} out of frame", c.idx))),
                },
                None => amb("column outside aggregation function in aggregate"),
            },
            Expr::Lit(v) => Ok(v.clone()),
            Expr::Param(i, _) => Ok(env.params[*i].clone()),
            Expr::Paren(x) => self.eval(x, env),
            Expr::Un(op, x) => {
                let v = self.sub(x, env)?;
                match op {
                    UnOp::Pos => Ok(v),
                    UnOp::Neg => match v {
                        Val::Null => Ok(Val::Null),
                        Val::Int(i) => i.checked_neg().map(Val::Int).ok_or(Amb("overflow".into())),
                        Val::Float(f) => Ok(Val::Float(-f)),
                        _ => amb("neg of non-number"),
                    },
                    UnOp::Not => match v.truth() {
                        None if v.is_null() => Ok(Val::Null),
                        Some(b) => Ok(Val::Bool(!b)),
                        None => amb("not of non-bool"),
                    },
                }
            }
            Expr::Bin(op, l, r) => self.binop(*op, l, r, env),
            Expr::Case(bs) => {
                for (c, v) in bs {
                    let cv = self.sub(c, env)?;
                    if cv.truth() == Some(true) {
                        return self.sub(v, env);
                    }
                }
                Ok(Val::Null)
            }
            Expr::In(x, lo, hi) => {
                let v = self.sub(x, env)?;
                let mut res = Some(true);
                let mut and3 = |c: Option<bool>| {
                    res = match (res, c) {
                        (Some(false), _) | (_, Some(false)) => Some(false),
                        (Some(true), Some(true)) => Some(true),
                        _ => None,
                    }
                };
                if let Some(lo) = lo {
                    let l = self.sub(lo, env)?;
                    and3(self.compare(BinOp::Gte, &v, &l)?);
                }
                if let Some(hi) = hi {
                    let h = self.sub(hi, env)?;
                    and3(self.compare(BinOp::Lte, &v, &h)?);
                }
                Ok(res.map(Val::Bool).unwrap_or(Val::Null))
            }
            Expr::FStr(parts) => {
                let mut s = String::new();
                for p in parts {
                    match p {
                        FPart::Text(t) => s.push_str(t),
                        FPart::Expr(e) => match self.sub(e, env)? {
                            Val::Null => return amb("NULL inside f-string"),
                            Val::Text(t) => s.push_str(&t),
                            Val::Int(i) => s.push_str(&i.to_string()),
                            _ => return amb("non-text/int inside f-string"),
                        },
                    }
                }
                Ok(Val::Text(s))
            }
            Expr::Call {
                func, args, named, ..
            } => {
                let f = &self.prog.funcs[*func];
                let mut pv: Vec<Val> = Vec::with_capacity(f.params.len());
                let mut ai = 0;
                for p in &f.params {
                    match &p.default {
                        None => {
                            let a = args.get(ai).ok_or(Amb("model bug: missing arg".into()))?;
                            ai += 1;
                            pv.push(self.sub(a, env)?);
                        }
                        Some(d) => {
                            if let Some((_, a)) = named.iter().find(|(n, _)| n == &p.name) {
                                pv.push(self.sub(a, env)?);
                            } else {
                                // defaults are closed expressions
                                pv.push(self.sub(
                                    d,
                                    &Env {
                                        row: None,
                                        seg: None,
                                        params: &[],
                                    },
                                )?);
                            }
                        }
                    }
                }
                self.eval(
                    &f.body,
                    &Env {
                        row: env.row,
                        seg: env.seg,
                        params: &pv,
                    },
                )
            }
            Expr::Agg(f, arg) => self.agg(*f, arg, env),
            Expr::Win(f, args) => self.win(*f, args, env),
        }
    }

    fn compare(&self, op: BinOp, a: &Val, b: &Val) -> R<Option<bool>> {
        if a.is_null() || b.is_null() {
            return Ok(None);
        }
        let o = match (a, b) {
            (Val::Text(x), Val::Text(y)) => x.as_bytes().cmp(y.as_bytes()),
            (Val::Text(_), _) | (_, Val::Text(_)) => return amb("text/number comparison"),
            (Val::Bool(x), Val::Bool(y)) => x.cmp(y),
            _ => {
                let (Some(x), Some(y)) = (to_num(a), to_num(b)) else {
                    return amb("comparison of an open / mixed value");
                };
                match x.partial_cmp(&y) {
                    Some(o) => o,
                    None => return amb("NaN comparison"),
                }
            }
        };
        Ok(Some(match op {
            BinOp::Eq => o == Ordering::Equal,
            BinOp::Ne => o != Ordering::Equal,
            BinOp::Lt => o == Ordering::Less,
            BinOp::Gt => o == Ordering::Greater,
            BinOp::Lte => o != Ordering::Greater,
            BinOp::Gte => o != Ordering::Less,
            _ => unreachable!(),
        }))
    }

    fn is_null_lit(e: &Expr) -> bool {
        match e {
            Expr::Lit(Val::Null) => true,
            // parentheses and unary plus are dropped by the parser/compiler: still the literal
            Expr::Paren(x) | Expr::Un(UnOp::Pos, x) => Self::is_null_lit(x),
            _ => false,
        }
    }

    fn binop(&self, op: BinOp, l: &Expr, r: &Expr, env: &Env) -> R<Val> {
        // comparison with the literal null tests null-ness (null.md)
        if matches!(op, BinOp::Eq | BinOp::Ne) && (Self::is_null_lit(l) || Self::is_null_lit(r)) {
            let other = if Self::is_null_lit(l) { r } else { l };
            let v = self.sub(other, env)?;
            let isn = v.is_null();
            return Ok(Val::Bool(if op == BinOp::Eq { isn } else { !isn }));
        }
        match op {
            BinOp::And | BinOp::Or => {
                let a = self.sub(l, env)?;
                let b = self.sub(r, env)?;
                let (x, y) = (a.truth(), b.truth());
                if (!a.is_null() && x.is_none()) || (!b.is_null() && y.is_none()) {
                    return amb("logic on non-bool");
                }
                let res = if op == BinOp::And {
                    match (x, y) {
                        (Some(false), _) | (_, Some(false)) => Some(false),
                        (Some(true), Some(true)) => Some(true),
                        _ => None,
                    }
                } else {
                    match (x, y) {
                        (Some(true), _) | (_, Some(true)) => Some(true),
                        (Some(false), Some(false)) => Some(false),
                        _ => None,
                    }
                };
                return Ok(res.map(Val::Bool).unwrap_or(Val::Null));
            }
            BinOp::Coalesce => {
                let a = self.sub(l, env)?;
                if !a.is_null() {
                    return Ok(a);
                }
                return self.sub(r, env);
            }
            _ => {}
        }
        let a = self.sub(l, env)?;
        let b = self.sub(r, env)?;
        if op.is_compare() {
            return Ok(self
                .compare(op, &a, &b)?
                .map(Val::Bool)
                .unwrap_or(Val::Null));
        }
        if a.is_null() || b.is_null() {
            // arithmetic on NULL is NULL; but division by a zero literal etc. stays NULL too
            return Ok(Val::Null);
        }
        if matches!(a, Val::Text(_) | Val::Bool(_)) || matches!(b, Val::Text(_) | Val::Bool(_)) {
            return amb("arithmetic on non-number");
        }
        match op {
            BinOp::Add | BinOp::Sub | BinOp::Mul => match (&a, &b) {
                (Val::Int(x), Val::Int(y)) => arith_int(op, *x, *y),
                _ => {
                    let (x, y) = (to_num(&a).unwrap(), to_num(&b).unwrap());
                    Ok(Val::Float(match op {
                        BinOp::Add => x + y,
                        BinOp::Sub => x - y,
                        _ => x * y,
                    }))
                }
            },
            BinOp::DivF => {
                let (x, y) = (to_num(&a).unwrap(), to_num(&b).unwrap());
                if y == 0.0 {
                    return amb("division by zero");
                }
                Ok(Val::Float(x / y))
            }
            BinOp::DivI => {
                let (x, y) = (to_num(&a).unwrap(), to_num(&b).unwrap());
                if y == 0.0 {
                    return amb("integer division by zero");
                }
                if let (Val::Int(p), Val::Int(q)) = (&a, &b) {
                    if *p != 0 && p.abs() < q.abs() {
                        self.touched.borrow_mut().divi_small_int = true;
                    }
                    return Ok(Val::Int(p.wrapping_div(*q)));
                }
                Ok(Val::Float((x / y).trunc()))
            }
            BinOp::Mod => match (&a, &b) {
                (Val::Int(p), Val::Int(q)) => {
                    if *q == 0 {
                        return amb("modulo by zero");
                    }
                    Ok(Val::Int(p.wrapping_rem(*q)))
                }
                _ => amb("modulo on floats"),
            },
            BinOp::Pow => {
                let (x, y) = (to_num(&a).unwrap(), to_num(&b).unwrap());
                let p = x.powf(y);
                if !p.is_finite() {
                    return amb("pow not finite");
                }
                if x == 0.0 && y < 0.0 {
                    return amb("0 ** negative");
                }
                if x < 0.0 && y != y.trunc() {
                    return amb("negative ** fractional");
                }
                if p.abs() > 1e15 {
                    return amb("pow too large for exact comparison");
                }
                Ok(Val::Float(p))
            }
            _ => unreachable!(),
        }
    }

    // ------------------------------------------------------------------ aggregates / windows

    /// rows of the segment the function sees, given the frame
    fn segment<'s>(&self, seg: &Seg<'s>, needs_frame: bool) -> R<Vec<&'s Row>> {
        let n = seg.rows.len();
        let Some(cur) = seg.cur else {
            return Ok(seg.rows.iter().collect());
        };
        if !needs_frame {
            return Ok(seg.rows.iter().collect());
        }
        let frame = match seg.frame {
            WFrame::Rolling(k) => WFrame::Rows(Some(1 - k), Some(0)),
            WFrame::Expanding => WFrame::Rows(None, Some(0)),
            f => f,
        };
        match frame {
            WFrame::Default | WFrame::Rows(None, None) | WFrame::Range(None, None) => {
                Ok(seg.rows.iter().collect())
            }
            WFrame::Rows(a, b) => {
                if n > 1 {
                    if seg.order.is_empty() {
                        return amb("rows frame without an order");
                    }
                    if !self.total(seg) {
                        return amb("rows frame over a non-total order");
                    }
                }
                let lo = a.map(|a| cur as i64 + a).unwrap_or(0).max(0);
                let hi = b.map(|b| cur as i64 + b).unwrap_or(n as i64 - 1).min(n as i64 - 1);
                let mut v = vec![];
                let mut i = lo;
                while i <= hi {
                    v.push(&seg.rows[i as usize]);
                    i += 1;
                }
                Ok(v)
            }
            WFrame::Range(a, b) => {
                if seg.order.len() != 1 {
                    return amb("range frame needs exactly one sort key");
                }
                let desc = seg.order[0];
                let kc = &seg.rows[cur].okey[0];
                let Some(k) = kc.as_f64() else {
                    return amb("range frame over NULL / non-numeric key");
                };
                let mut v = vec![];
                for r in seg.rows {
                    let Some(x) = r.okey[0].as_f64() else {
                        if r.okey[0].is_null() {
                            // NULL keys are never within a numeric offset of a number
                            // unless the bound is open
                            let before = !desc; // NULLs first when ascending
                            let open_side = if before { a.is_none() } else { b.is_none() };
                            if open_side {
                                v.push(r);
                            }
                            continue;
                        }
                        return amb("range frame over non-numeric key");
                    };
                    // position along the sort direction
                    let d = if desc { k - x } else { x - k };
                    let ok_lo = a.map(|a| d >= a as f64).unwrap_or(true);
                    let ok_hi = b.map(|b| d <= b as f64).unwrap_or(true);
                    if ok_lo && ok_hi {
                        v.push(r);
                    }
                }
                Ok(v)
            }
            _ => unreachable!(),
        }
    }

    fn total(&self, seg: &Seg) -> bool {
        for w in seg.rows.windows(2) {
            if keys_eq(&w[0].okey, &w[1].okey) {
                return false;
            }
        }
        true
    }

    fn agg(&self, f: AggFn, arg: &Expr, env: &Env) -> R<Val> {
        let Some(seg) = env.seg else {
            return amb("aggregation function without a relation context");
        };
        let rows = self.segment(&seg, true)?;
        let windowed = seg.cur.is_some();
        let mut vals = vec![];
        for r in &rows {
            let v = self.eval(
                arg,
                &Env {
                    row: Some(&r.vals),
                    seg: None,
                    params: env.params,
                },
            )?;
            vals.push(v);
        }
        let nn: Vec<&Val> = vals.iter().filter(|v| !v.is_null()).collect();
        match f {
            AggFn::Count => Ok(Val::Int(vals.len() as i64)),
            AggFn::CountDistinct => {
                let mut seen: Vec<&Val> = vec![];
                for v in &nn {
                    if !seen.iter().any(|s| key_eq(s, v)) {
                        seen.push(v);
                    }
                }
                Ok(Val::Int(seen.len() as i64))
            }
            AggFn::Sum => {
                if nn.is_empty() {
                    // aggregate: sum of no values is 0 (documented); as a window function the
                    // compiler deliberately omits the COALESCE (#3587): leave it open
                    return Ok(if windowed {
                        Val::Either(Box::new(Val::Int(0)), Box::new(Val::Null))
                    } else {
                        Val::Int(0)
                    });
                }
                if nn.iter().all(|v| matches!(v, Val::Int(_))) {
                    let mut s: i64 = 0;
                    for v in &nn {
                        if let Val::Int(i) = v {
                            s = s.checked_add(*i).ok_or(Amb("sum overflow".into()))?;
                        }
                    }
                    Ok(Val::Int(s))
                } else {
                    let mut s = 0.0;
                    for v in &nn {
                        s += v.as_f64().ok_or(Amb("sum of non-number".into()))?;
                    }
                    Ok(Val::Float(s))
                }
            }
            AggFn::Average => {
                if nn.is_empty() {
                    return Ok(Val::Null);
                }
                let mut s = 0.0;
                for v in &nn {
                    s += v.as_f64().ok_or(Amb("average of non-number".into()))?;
                }
                Ok(Val::Float(s / nn.len() as f64))
            }
            AggFn::Min | AggFn::Max => {
                if nn.is_empty() {
                    return Ok(Val::Null);
                }
                let mut best = nn[0];
                for v in &nn[1..] {
                    let o = order_cmp(v, best);
                    if (f == AggFn::Min && o == Ordering::Less)
                        || (f == AggFn::Max && o == Ordering::Greater)
                    {
                        best = v;
                    }
                }
                Ok(best.clone())
            }
            AggFn::Any | AggFn::All => {
                if nn.is_empty() {
                    return Ok(if windowed {
                        Val::Either(
                            Box::new(Val::Bool(f == AggFn::All)),
                            Box::new(Val::Null),
                        )
                    } else {
                        Val::Bool(f == AggFn::All)
                    });
                }
                let mut acc = f == AggFn::All;
                for v in &nn {
                    let b = v.truth().ok_or(Amb("any/all of non-bool".into()))?;
                    if f == AggFn::All {
                        acc = acc && b
                    } else {
                        acc = acc || b
                    }
                }
                Ok(Val::Bool(acc))
            }
        }
    }

    fn win(&self, f: WinFn, args: &[Expr], env: &Env) -> R<Val> {
        let Some(seg) = env.seg else {
            return amb("window function without a relation context");
        };
        let Some(cur) = seg.cur else {
            return amb("window function inside aggregate");
        };
        let n = seg.rows.len();
        let at = |i: usize, e: &Expr| -> R<Val> {
            self.eval(
                e,
                &Env {
                    row: Some(&seg.rows[i].vals),
                    seg: None,
                    params: env.params,
                },
            )
        };
        match f {
            WinFn::Rank | WinFn::RankDense => {
                // peers = equal sort keys; no order => everything is one peer group
                let mut rank = 1i64;
                let mut dense = 1i64;
                let mut i = 0;
                while i < n {
                    let mut j = i;
                    while j < n && keys_eq(&seg.rows[j].okey, &seg.rows[i].okey) {
                        j += 1;
                    }
                    if cur >= i && cur < j {
                        return Ok(Val::Int(if f == WinFn::Rank { rank } else { dense }));
                    }
                    rank += (j - i) as i64;
                    dense += 1;
                    i = j;
                }
                amb("model bug: rank")
            }
            WinFn::RowNumber => {
                if n > 1 && (seg.order.is_empty() || !self.total(&seg)) {
                    return amb("row_number over a non-total order");
                }
                Ok(Val::Int(cur as i64 + 1))
            }
            WinFn::Lag | WinFn::Lead => {
                if n > 1 && (seg.order.is_empty() || !self.total(&seg)) {
                    return amb("lag/lead over a non-total order");
                }
                let off = match self.eval(&args[0], env)? {
                    Val::Int(i) => i,
                    _ => return amb("lag/lead offset"),
                };
                let j = if f == WinFn::Lag {
                    cur as i64 - off
                } else {
                    cur as i64 + off
                };
                if j < 0 || j >= n as i64 {
                    Ok(Val::Null)
                } else {
                    at(j as usize, &args[1])
                }
            }
            WinFn::First | WinFn::Last => {
                let rows = self.segment(&seg, true)?;
                if rows.is_empty() {
                    return Ok(Val::Null);
                }
                if n > 1 && (seg.order.is_empty() || !self.total(&seg)) {
                    return amb("first/last over a non-total order");
                }
                let r = if f == WinFn::First {
                    rows[0]
                } else {
                    rows[rows.len() - 1]
                };
                self.eval(
                    &args[0],
                    &Env {
                        row: Some(&r.vals),
                        seg: None,
                        params: env.params,
                    },
                )
            }
        }
    }

    // ------------------------------------------------------------------ relations

    pub fn source(&self, s: &Source) -> R<Rel> {
        match &s.kind {
            SrcKind::Table(name) => {
                let t = self
                    .db
                    .table(name)
                    .ok_or(Amb(format!("model bug: no table {name}")))?;
                Ok(Rel {
                    ncols: t.cols.len(),
                    rows: t
                        .rows
                        .iter()
                        .map(|r| Row {
                            vals: r.clone(),
                            okey: vec![],
                        })
                        .collect(),
                    order: vec![],
                })
            }
            SrcKind::Let(i) => self.pipeline(&self.prog.lets[*i].pipe),
            SrcKind::Literal { cols, rows } => Ok(Rel {
                ncols: cols.len(),
                rows: rows
                    .iter()
                    .map(|r| Row {
                        vals: r.clone(),
                        okey: vec![],
                    })
                    .collect(),
                order: vec![],
            }),
            SrcKind::Sub(p) => self.pipeline(p),
        }
    }

    pub fn pipeline(&self, p: &Pipeline) -> R<Rel> {
        let rel = self.source(&p.source)?;
        self.steps(rel, &p.steps, WFrame::Default)
    }

    fn steps(&self, mut rel: Rel, steps: &[Step], frame: WFrame) -> R<Rel> {
        for st in steps {
            rel = self.step(rel, st, frame)?;
        }
        Ok(rel)
    }

    fn eval_items(&self, rel: &Rel, items: &[Item], frame: WFrame) -> R<Vec<Vec<Val>>> {
        let mut out = Vec::with_capacity(rel.rows.len());
        let windowed: Vec<bool> = items.iter().map(|it| it.expr.has_window()).collect();
        for (i, r) in rel.rows.iter().enumerate() {
            let mut vals = Vec::with_capacity(items.len());
            for (it, w) in items.iter().zip(&windowed) {
                let env = Env {
                    row: Some(&r.vals),
                    seg: if *w {
                        Some(Seg {
                            rows: &rel.rows,
                            cur: Some(i),
                            frame,
                            order: &rel.order,
                        })
                    } else {
                        None
                    },
                    params: &[],
                };
                // a value left open by the reference may only be an output cell
                let v = match self.eval(&it.expr, &env) {
                    Ok(v) => v,
                    Err(e) => return Err(e),
                };
                vals.push(v);
            }
            out.push(vals);
        }
        Ok(out)
    }

    fn step(&self, rel: Rel, st: &Step, frame: WFrame) -> R<Rel> {
        match st {
            Step::Select(items) => {
                let vals = self.eval_items(&rel, items, frame)?;
                Ok(Rel {
                    ncols: items.len(),
                    rows: rel
                        .rows
                        .into_iter()
                        .zip(vals)
                        .map(|(r, v)| Row {
                            vals: v,
                            okey: r.okey,
                        })
                        .collect(),
                    order: rel.order,
                })
            }
            Step::SelectExcept(cols) => {
                let drop: Vec<usize> = cols.iter().map(|c| c.idx).collect();
                let keep: Vec<usize> = (0..rel.ncols).filter(|i| !drop.contains(i)).collect();
                Ok(Rel {
                    ncols: keep.len(),
                    rows: rel
                        .rows
                        .into_iter()
                        .map(|r| Row {
                            vals: keep.iter().map(|i| r.vals[*i].clone()).collect(),
                            okey: r.okey,
                        })
                        .collect(),
                    order: rel.order,
                })
            }
            Step::Derive(items) => {
                // later items of one derive may refer to earlier ones: evaluate one by one
                let mut rel = rel;
                for it in items {
                    let vals = self.eval_items(&rel, std::slice::from_ref(it), frame)?;
                    for (r, mut v) in rel.rows.iter_mut().zip(vals) {
                        r.vals.push(v.pop().unwrap());
                    }
                    rel.ncols += 1;
                }
                Ok(rel)
            }
            Step::Filter(e) => {
                let it = [Item {
                    alias: None,
                    expr: e.clone(),
                }];
                let vals = self.eval_items(&rel, &it, frame)?;
                let mut rows = vec![];
                for (r, v) in rel.rows.into_iter().zip(vals) {
                    match &v[0] {
                        Val::Either(..) => return amb("open value in filter"),
                        v => {
                            if v.truth() == Some(true) {
                                rows.push(r)
                            }
                        }
                    }
                }
                Ok(Rel {
                    ncols: rel.ncols,
                    rows,
                    order: rel.order,
                })
            }
            Step::Sort(keys) => {
                let items: Vec<Item> = keys
                    .iter()
                    .map(|k| Item {
                        alias: None,
                        expr: k.expr.clone(),
                    })
                    .collect();
                let vals = self.eval_items(&rel, &items, frame)?;
                for v in vals.iter().flatten() {
                    if matches!(v, Val::Either(..)) {
                        return amb("open value as sort key");
                    }
                }
                let desc: Vec<bool> = keys.iter().map(|k| k.desc).collect();
                let mut rows: Vec<Row> = rel
                    .rows
                    .into_iter()
                    .zip(vals)
                    .map(|(r, v)| Row {
                        vals: r.vals,
                        okey: v,
                    })
                    .collect();
                rows.sort_by(|a, b| cmp_okey(&a.okey, &b.okey, &desc));
                Ok(Rel {
                    ncols: rel.ncols,
                    rows,
                    order: desc,
                })
            }
            Step::Take { lo, hi, .. } => {
                let n = rel.rows.len() as i64;
                let lo = lo.unwrap_or(1).max(1);
                let hi = hi.unwrap_or(i64::MAX).min(n);
                if lo <= 1 && hi >= n {
                    return Ok(rel);
                }
                if lo > hi {
                    return Ok(Rel {
                        ncols: rel.ncols,
                        rows: vec![],
                        order: rel.order,
                    });
                }
                if !rel.ordered() {
                    return amb("take on an unordered relation");
                }
                let (s, e) = ((lo - 1) as usize, hi as usize); // [s, e)
                if s > 0 && keys_eq(&rel.rows[s - 1].okey, &rel.rows[s].okey) {
                    return amb("take cuts through a tie");
                }
                if e < rel.rows.len() && keys_eq(&rel.rows[e - 1].okey, &rel.rows[e].okey) {
                    return amb("take cuts through a tie");
                }
                Ok(Rel {
                    ncols: rel.ncols,
                    rows: rel.rows[s..e].to_vec(),
                    order: rel.order,
                })
            }
            Step::Join { side, right, cond } => {
                let rrel = self.source(right)?;
                let (ln, rn) = (rel.ncols, rrel.ncols);
                let mut out = vec![];
                let mut rmatched = vec![false; rrel.rows.len()];
                for l in &rel.rows {
                    let mut any = false;
                    for (j, r) in rrel.rows.iter().enumerate() {
                        let mut both = l.vals.clone();
                        both.extend(r.vals.iter().cloned());
                        let ok = match cond {
                            JoinCond::Expr(e) => self.scalar(e, &both)?.truth() == Some(true),
                            JoinCond::SelfEq(ps) => {
                                let mut ok = true;
                                for (a, b, _) in ps {
                                    if self.compare(BinOp::Eq, &both[*a], &both[*b])? != Some(true) {
                                        ok = false;
                                    }
                                }
                                ok
                            }
                        };
                        if ok {
                            any = true;
                            rmatched[j] = true;
                            out.push(Row {
                                vals: both,
                                okey: l.okey.clone(),
                            });
                        }
                    }
                    if !any && matches!(side, Side::Left | Side::Full) {
                        let mut both = l.vals.clone();
                        both.extend(std::iter::repeat(Val::Null).take(rn));
                        out.push(Row {
                            vals: both,
                            okey: l.okey.clone(),
                        });
                    }
                }
                let mut order = rel.order.clone();
                if matches!(side, Side::Right | Side::Full) {
                    let mut extra = false;
                    for (j, r) in rrel.rows.iter().enumerate() {
                        if !rmatched[j] {
                            extra = true;
                            let mut both: Vec<Val> =
                                std::iter::repeat(Val::Null).take(ln).collect();
                            both.extend(r.vals.iter().cloned());
                            out.push(Row {
                                vals: both,
                                okey: vec![],
                            });
                        }
                    }
                    if extra && rel.ordered() {
                        return amb("unmatched right rows have no position in the left order");
                    }
                    if extra {
                        order.clear();
                    }
                }
                Ok(Rel {
                    ncols: ln + rn,
                    rows: out,
                    order,
                })
            }
            Step::Aggregate(items) => {
                let mut vals = vec![];
                for it in items {
                    let env = Env {
                        row: None,
                        seg: Some(Seg {
                            rows: &rel.rows,
                            cur: None,
                            frame: WFrame::Default,
                            order: &rel.order,
                        }),
                        params: &[],
                    };
                    vals.push(self.eval(&it.expr, &env)?);
                }
                Ok(Rel {
                    ncols: items.len(),
                    rows: vec![Row { vals, okey: vec![] }],
                    order: vec![],
                })
            }
            Step::Group { keys, inner } => {
                // partition, preserving the current order inside each partition
                let mut parts: Vec<(Vec<Val>, Vec<Row>)> = vec![];
                for r in rel.rows.iter() {
                    let k: Vec<Val> = keys.iter().map(|c| r.vals[c.idx].clone()).collect();
                    if k.iter().any(|v| matches!(v, Val::Either(..))) {
                        return amb("open value as group key");
                    }
                    match parts.iter_mut().find(|(pk, _)| keys_eq(pk, &k)) {
                        Some((_, rows)) => rows.push(r.clone()),
                        None => parts.push((k, vec![r.clone()])),
                    }
                }
                let is_agg = matches!(inner.last(), Some(Step::Aggregate(_)));
                let mut out_rows = vec![];
                let mut ncols = None;
                for (k, rows) in parts {
                    let sub = Rel {
                        ncols: rel.ncols,
                        rows,
                        order: rel.order.clone(),
                    };
                    let res = self.steps(sub, inner, frame)?;
                    let nc = if is_agg {
                        keys.len() + res.ncols
                    } else {
                        res.ncols
                    };
                    ncols = Some(nc);
                    for r in res.rows {
                        let vals = if is_agg {
                            let mut v = k.clone();
                            v.extend(r.vals);
                            v
                        } else {
                            // output frame: key columns first, then the remaining columns
                            let mut v: Vec<Val> = keys.iter().map(|c| r.vals[c.idx].clone()).collect();
                            for (i, x) in r.vals.into_iter().enumerate() {
                                if !keys.iter().any(|c| c.idx == i) {
                                    v.push(x);
                                }
                            }
                            v
                        };
                        out_rows.push(Row { vals, okey: vec![] });
                    }
                }
                let ncols = match ncols {
                    Some(n) => n,
                    None => {
                        // empty input: derive the arity by running the inner pipeline on nothing
                        let res = self.steps(
                            Rel {
                                ncols: rel.ncols,
                                rows: vec![],
                                order: vec![],
                            },
                            inner,
                            frame,
                        )?;
                        if is_agg {
                            keys.len() + res.ncols
                        } else {
                            res.ncols
                        }
                    }
                };
                Ok(Rel {
                    ncols,
                    rows: out_rows,
                    order: vec![],
                })
            }
            Step::Window { frame: f, inner } => self.steps(rel, inner, *f),
            Step::Append(src) => {
                let bottom = self.source(src)?;
                if bottom.ncols != rel.ncols {
                    return Err(Amb("model bug: append arity".into()));
                }
                let mut rows = rel.rows;
                rows.extend(bottom.rows);
                Ok(Rel {
                    ncols: rel.ncols,
                    rows,
                    order: vec![],
                }
                .unordered())
            }
        }
    }
}

// ---------------------------------------------------------------------------------------
// comparison of an engine result with the reference relation

#[derive(Debug)]
pub enum Mismatch {
    Arity { expected: usize, got: usize },
    RowCount { expected: usize, got: usize },
    Rows(String),
    Order(String),
}

fn row_key(vals: &[Val]) -> String {
    vals.iter().map(cell_key).collect::<Vec<_>>().join("\u{1}")
}

fn rows_match(reference: &[Val], got: &[Val]) -> bool {
    reference.len() == got.len() && reference.iter().zip(got).all(|(a, b)| cell_eq(a, b))
}

/// multiset comparison honouring open (`Either`) cells
fn multiset_eq(reference: &[&Row], got: &[&Vec<Val>]) -> bool {
    if reference.len() != got.len() {
        return false;
    }
    let has_either = reference
        .iter()
        .any(|r| r.vals.iter().any(|v| matches!(v, Val::Either(..))));
    if !has_either {
        let mut a: Vec<String> = reference.iter().map(|r| row_key(&r.vals)).collect();
        let mut b: Vec<String> = got.iter().map(|r| row_key(r)).collect();
        a.sort();
        b.sort();
        if a == b {
            return true;
        }
        // fall through to tolerant matching (float rounding at key boundaries)
    }
    let mut used = vec![false; got.len()];
    'outer: for r in reference {
        for (j, g) in got.iter().enumerate() {
            if !used[j] && rows_match(&r.vals, g) {
                used[j] = true;
                continue 'outer;
            }
        }
        return false;
    }
    true
}

pub fn compare(reference: &Rel, got_cols: usize, got: &[Vec<Val>]) -> Result<(), Mismatch> {
    if reference.ncols != got_cols {
        return Err(Mismatch::Arity {
            expected: reference.ncols,
            got: got_cols,
        });
    }
    if reference.rows.len() != got.len() {
        return Err(Mismatch::RowCount {
            expected: reference.rows.len(),
            got: got.len(),
        });
    }
    let all_ref: Vec<&Row> = reference.rows.iter().collect();
    let all_got: Vec<&Vec<Val>> = got.iter().collect();
    if !multiset_eq(&all_ref, &all_got) {
        return Err(Mismatch::Rows("row multisets differ".into()));
    }
    if reference.ordered() {
        // consecutive tie classes of the reference must match consecutive chunks of the result
        let mut i = 0;
        let n = reference.rows.len();
        while i < n {
            let mut j = i;
            while j < n && keys_eq(&reference.rows[j].okey, &reference.rows[i].okey) {
                j += 1;
            }
            let r: Vec<&Row> = reference.rows[i..j].iter().collect();
            let g: Vec<&Vec<Val>> = got[i..j].iter().collect();
            if !multiset_eq(&r, &g) {
                return Err(Mismatch::Order(format!(
                    "rows {}..{} of the result are not the rows the sort in effect puts there",
                    i + 1,
                    j
                )));
            }
            i = j;
        }
    }
    Ok(())
}
