//! Values, types and the engine-side comparison rules the reference interpreter uses.

use std::cmp::Ordering;

use serde::{Deserialize, Serialize};

#[derive(Clone, Copy, Debug, PartialEq, Eq, Hash, Serialize, Deserialize)]
pub enum Ty {
    Int,
    Float,
    Text,
    Bool,
}

impl Ty {
    pub fn sql(&self) -> &'static str {
        match self {
            Ty::Int => "INTEGER",
            Ty::Float => "REAL",
            Ty::Text => "TEXT",
            Ty::Bool => "BOOLEAN",
        }
    }
    pub fn numeric(&self) -> bool {
        matches!(self, Ty::Int | Ty::Float)
    }
}

#[derive(Clone, Debug, Serialize, Deserialize)]
pub enum Val {
    Null,
    Int(i64),
    Float(f64),
    Text(String),
    Bool(bool),
    /// Reference leaves the result open between two values (documented ambiguity that is
    /// confined to one output cell).
    Either(Box<Val>, Box<Val>),
}

impl Val {
    pub fn is_null(&self) -> bool {
        matches!(self, Val::Null)
    }
    pub fn as_f64(&self) -> Option<f64> {
        match self {
            Val::Int(i) => Some(*i as f64),
            Val::Float(f) => Some(*f),
            Val::Bool(b) => Some(*b as i64 as f64),
            _ => None,
        }
    }
    pub fn truth(&self) -> Option<bool> {
        match self {
            Val::Null => None,
            Val::Bool(b) => Some(*b),
            Val::Int(i) => Some(*i != 0),
            Val::Float(f) => Some(*f != 0.0),
            _ => None,
        }
    }
    pub fn show(&self) -> String {
        match self {
            Val::Null => "NULL".into(),
            Val::Int(i) => i.to_string(),
            Val::Float(f) => format!("{f:?}"),
            Val::Text(s) => format!("{s:?}"),
            Val::Bool(b) => b.to_string(),
            Val::Either(a, b) => format!("({}|{})", a.show(), b.show()),
        }
    }
}

pub fn float_close(a: f64, b: f64) -> bool {
    if a == b {
        return true;
    }
    if a.is_nan() || b.is_nan() {
        return a.is_nan() && b.is_nan();
    }
    let d = (a - b).abs();
    d <= 1e-9 * a.abs().max(b.abs()).max(1.0)
}

/// Result-cell equality: numeric by value (2 = 2.0, true = 1), floats within 1e-9 relative.
pub fn cell_eq(reference: &Val, got: &Val) -> bool {
    match (reference, got) {
        (Val::Either(a, b), g) => cell_eq(a, g) || cell_eq(b, g),
        (Val::Null, Val::Null) => true,
        (Val::Null, _) | (_, Val::Null) => false,
        (Val::Text(a), Val::Text(b)) => a == b,
        (Val::Text(_), _) | (_, Val::Text(_)) => false,
        (a, b) => match (a.as_f64(), b.as_f64()) {
            (Some(x), Some(y)) => float_close(x, y),
            _ => false,
        },
    }
}

/// Canonical key of a cell for multiset comparison (floats rounded to 9 significant digits).
pub fn cell_key(v: &Val) -> String {
    match v {
        Val::Null => "N".into(),
        Val::Text(s) => format!("T{s}"),
        Val::Either(a, _) => cell_key(a),
        other => {
            let f = other.as_f64().unwrap();
            if f == 0.0 {
                "F0".into()
            } else if f.is_finite() && f == f.trunc() && f.abs() < 1e15 {
                format!("F{}", f as i64)
            } else {
                format!("F{:.9e}", f)
            }
        }
    }
}

fn class(v: &Val) -> u8 {
    match v {
        Val::Null => 0,
        Val::Int(_) | Val::Float(_) | Val::Bool(_) => 1,
        Val::Text(_) => 2,
        Val::Either(a, _) => class(a),
    }
}

/// SQLite's ORDER BY comparison (ascending): NULL < numbers < text (binary collation).
pub fn order_cmp(a: &Val, b: &Val) -> Ordering {
    let (ca, cb) = (class(a), class(b));
    if ca != cb {
        return ca.cmp(&cb);
    }
    match (a, b) {
        (Val::Text(x), Val::Text(y)) => x.as_bytes().cmp(y.as_bytes()),
        (Val::Null, Val::Null) => Ordering::Equal,
        _ => {
            let (x, y) = (a.as_f64().unwrap_or(0.0), b.as_f64().unwrap_or(0.0));
            x.partial_cmp(&y).unwrap_or(Ordering::Equal)
        }
    }
}

/// Equality used for grouping / tie classes: NULL equals NULL, numeric by value.
pub fn key_eq(a: &Val, b: &Val) -> bool {
    order_cmp(a, b) == Ordering::Equal
}

pub fn keys_eq(a: &[Val], b: &[Val]) -> bool {
    a.len() == b.len() && a.iter().zip(b).all(|(x, y)| key_eq(x, y))
}
