//! RQ well-formedness validator (C16), over the JSON form of `ir::rq::RelationalQuery`
//! (the documented contract for back-ends and the staged API).

use std::collections::{HashMap, HashSet};

use serde_json::Value;

#[derive(Default)]
pub struct RqStats {
    pub tables: usize,
    pub cids: usize,
    pub joins: usize,
    pub appends: usize,
    pub loops: usize,
    pub aggregates: usize,
    pub windows: usize,
}

fn col_refs(v: &Value, out: &mut Vec<u64>) {
    match v {
        Value::Object(m) => {
            if let Some(Value::Number(n)) = m.get("ColumnRef") {
                if m.len() == 1 {
                    if let Some(u) = n.as_u64() {
                        out.push(u);
                    }
                }
            }
            for (_, x) in m {
                col_refs(x, out);
            }
        }
        Value::Array(a) => {
            for x in a {
                col_refs(x, out);
            }
        }
        _ => {}
    }
}

fn cid_list(v: Option<&Value>) -> Vec<u64> {
    v.and_then(|x| x.as_array())
        .map(|a| a.iter().filter_map(|x| x.as_u64()).collect())
        .unwrap_or_default()
}

fn sort_cols(v: Option<&Value>) -> Vec<u64> {
    v.and_then(|x| x.as_array())
        .map(|a| {
            a.iter()
                .filter_map(|s| s.get("column").and_then(|c| c.as_u64()))
                .collect()
        })
        .unwrap_or_default()
}

struct Ck<'a> {
    rq: &'a Value,
    defined: HashMap<u64, usize>,
    errors: Vec<String>,
    agg_computes: HashSet<u64>,
    flagged_agg: HashSet<u64>,
    stats: RqStats,
    table_index: HashMap<u64, usize>,
}

impl<'a> Ck<'a> {
    fn err(&mut self, s: String) {
        if self.errors.len() < 8 {
            self.errors.push(s);
        }
    }

    fn define(&mut self, cid: u64, what: &str) {
        let n = self.defined.entry(cid).or_insert(0);
        *n += 1;
        if *n == 2 {
            self.err(format!("column id {cid} is defined more than once ({what})"));
        }
    }

    /// sort keys (of Sort, Take.sort, Window.sort) stay usable after a Select dropped them:
    /// the resolver carries the sort in effect along (observed on the repository's own
    /// queries); they only have to be defined earlier in the same pipeline
    fn use_sort(&mut self, cids: &[u64], seen: &HashSet<u64>, at: &str) {
        for c in cids {
            if !seen.contains(c) {
                if self.defined.contains_key(c) {
                    self.err(format!("column id {c} used as sort key in {at} is defined in another pipeline or later"));
                } else {
                    self.err(format!("column id {c} used as sort key in {at} is not defined before its use"));
                }
            }
        }
    }

    fn use_all(&mut self, cids: &[u64], visible: &HashSet<u64>, at: &str) {
        for c in cids {
            if !visible.contains(c) {
                if self.defined.contains_key(c) {
                    self.err(format!("column id {c} used in {at} is not visible at that point of its pipeline"));
                } else {
                    self.err(format!("column id {c} used in {at} is not defined before its use"));
                }
            }
        }
    }

    fn table_ref(&mut self, tr: &Value, owner_index: Option<usize>, visible: &mut HashSet<u64>, at: &str) {
        let Some(src) = tr.get("source").and_then(|s| s.as_u64()) else {
            self.err(format!("{at}: table reference without source"));
            return;
        };
        match self.table_index.get(&src).copied() {
            None => self.err(format!("{at}: table id {src} is not declared")),
            Some(idx) => {
                if let Some(o) = owner_index {
                    if idx >= o {
                        self.err(format!("{at}: table id {src} is referenced before its declaration"));
                    }
                }
                // every (column, cid) names a column of the source relation
                let src_cols: Vec<Value> = self.rq["tables"][idx]["relation"]["columns"]
                    .as_array()
                    .cloned()
                    .unwrap_or_default();
                if let Some(cols) = tr.get("columns").and_then(|c| c.as_array()) {
                    for pair in cols {
                        let rc = &pair[0];
                        if !src_cols.contains(rc) {
                            self.err(format!("{at}: column {rc} is not a column of table id {src}"));
                        }
                    }
                }
            }
        }
        if let Some(cols) = tr.get("columns").and_then(|c| c.as_array()) {
            for pair in cols {
                if let Some(cid) = pair[1].as_u64() {
                    self.define(cid, at);
                    visible.insert(cid);
                }
            }
        }
    }

    fn pipeline(&mut self, ts: &[Value], owner_index: Option<usize>, outer: Option<&HashSet<u64>>, ncols: Option<usize>, at: &str) {
        let mut visible: HashSet<u64> = outer.cloned().unwrap_or_default();
        // everything defined so far in this pipeline (never shrinks)
        let mut seen: HashSet<u64> = visible.clone();
        if ts.is_empty() {
            self.err(format!("{at}: empty pipeline"));
            return;
        }
        if ts[0].get("From").is_none() && outer.is_none() {
            self.err(format!("{at}: pipeline does not start with From"));
        }
        for (i, t) in ts.iter().enumerate() {
            let here = format!("{at} transform {i}");
            if let Some(tr) = t.get("From") {
                if i != 0 {
                    self.err(format!("{here}: From is not the first transform"));
                }
                self.table_ref(tr, owner_index, &mut visible, &here);
                seen.extend(visible.iter().copied());
            } else if let Some(c) = t.get("Compute") {
                let mut uses = vec![];
                col_refs(&c["expr"], &mut uses);
                if let Some(w) = c.get("window") {
                    if !w.is_null() {
                        self.stats.windows += 1;
                        uses.extend(cid_list(w.get("partition")));
                        let sc = sort_cols(w.get("sort"));
                        self.use_sort(&sc, &seen, &format!("{here} (Compute window)"));
                        col_refs(&w["frame"], &mut uses);
                    }
                }
                self.use_all(&uses, &visible, &format!("{here} (Compute)"));
                if let Some(id) = c.get("id").and_then(|x| x.as_u64()) {
                    self.define(id, &here);
                    visible.insert(id);
                    seen.insert(id);
                    if c.get("is_aggregation").and_then(|b| b.as_bool()).unwrap_or(false) {
                        self.flagged_agg.insert(id);
                    }
                }
            } else if let Some(s) = t.get("Select") {
                let cids = cid_list(Some(s));
                self.use_all(&cids, &visible, &format!("{here} (Select)"));
                visible = cids.into_iter().collect();
                if let Some(o) = outer {
                    visible.extend(o.iter().copied());
                }
            } else if let Some(f) = t.get("Filter") {
                let mut uses = vec![];
                col_refs(f, &mut uses);
                self.use_all(&uses, &visible, &format!("{here} (Filter)"));
            } else if let Some(a) = t.get("Aggregate") {
                self.stats.aggregates += 1;
                let part = cid_list(a.get("partition"));
                let comp = cid_list(a.get("compute"));
                self.use_all(&part, &visible, &format!("{here} (Aggregate partition)"));
                self.use_all(&comp, &visible, &format!("{here} (Aggregate compute)"));
                for c in &comp {
                    self.agg_computes.insert(*c);
                }
                visible = part.into_iter().chain(comp).collect();
                if let Some(o) = outer {
                    visible.extend(o.iter().copied());
                }
            } else if let Some(s) = t.get("Sort") {
                let cols = sort_cols(Some(s));
                self.use_sort(&cols, &seen, &format!("{here} (Sort)"));
            } else if let Some(tk) = t.get("Take") {
                let mut uses = cid_list(tk.get("partition"));
                let sc = sort_cols(tk.get("sort"));
                self.use_sort(&sc, &seen, &format!("{here} (Take)"));
                col_refs(&tk["range"], &mut uses);
                self.use_all(&uses, &visible, &format!("{here} (Take)"));
            } else if let Some(j) = t.get("Join") {
                self.stats.joins += 1;
                self.table_ref(&j["with"], owner_index, &mut visible, &format!("{here} (Join)"));
                seen.extend(visible.iter().copied());
                let mut uses = vec![];
                col_refs(&j["filter"], &mut uses);
                self.use_all(&uses, &visible, &format!("{here} (Join filter)"));
            } else if let Some(a) = t.get("Append") {
                self.stats.appends += 1;
                let mut scratch = HashSet::new();
                self.table_ref(a, owner_index, &mut scratch, &format!("{here} (Append)"));
            } else if let Some(l) = t.get("Loop") {
                self.stats.loops += 1;
                if let Some(inner) = l.as_array() {
                    let v = visible.clone();
                    self.pipeline(inner, owner_index, Some(&v), None, &format!("{here} (Loop)"));
                }
            } else {
                self.err(format!("{here}: unknown transform {t}"));
            }
        }
        if let Some(n) = ncols {
            match ts.last().and_then(|t| t.get("Select")) {
                None => self.err(format!("{at}: pipeline does not end with Select")),
                Some(s) => {
                    let k = s.as_array().map(|a| a.len()).unwrap_or(0);
                    if k != n {
                        self.err(format!(
                            "{at}: closing Select has {k} columns, the relation declares {n}"
                        ));
                    }
                }
            }
        }
    }
}

/// Returns the list of violated invariants (empty = well-formed).
pub fn check(rq: &Value) -> (Vec<String>, RqStats) {
    let mut ck = Ck {
        rq,
        defined: HashMap::new(),
        errors: vec![],
        agg_computes: HashSet::new(),
        flagged_agg: HashSet::new(),
        stats: RqStats::default(),
        table_index: HashMap::new(),
    };
    let tables: Vec<Value> = rq["tables"].as_array().cloned().unwrap_or_default();
    ck.stats.tables = tables.len();
    for (i, t) in tables.iter().enumerate() {
        match t.get("id").and_then(|x| x.as_u64()) {
            Some(id) => {
                if ck.table_index.insert(id, i).is_some() {
                    ck.err(format!("table id {id} is declared twice"));
                }
            }
            None => ck.err(format!("table {i} has no id")),
        }
    }
    for (i, t) in tables.iter().enumerate() {
        let rel = &t["relation"];
        if let Some(p) = rel["kind"].get("Pipeline").and_then(|p| p.as_array()) {
            let n = rel["columns"].as_array().map(|a| a.len());
            ck.pipeline(p, Some(i), None, n, &format!("table {i}"));
        }
    }
    let rel = &rq["relation"];
    if let Some(p) = rel["kind"].get("Pipeline").and_then(|p| p.as_array()) {
        let n = rel["columns"].as_array().map(|a| a.len());
        ck.pipeline(p, None, None, n, "main relation");
    }
    let only_flag: Vec<u64> = ck.flagged_agg.difference(&ck.agg_computes).copied().collect();
    let only_agg: Vec<u64> = ck.agg_computes.difference(&ck.flagged_agg).copied().collect();
    for c in only_flag {
        ck.err(format!("compute {c} has is_aggregation but is not listed in an Aggregate"));
    }
    for c in only_agg {
        ck.err(format!("compute {c} is listed in an Aggregate without is_aggregation"));
    }
    ck.stats.cids = ck.defined.len();
    (ck.errors, ck.stats)
}
