//! Coverage-guided campaigns (thorough tier): drives the libFuzzer binaries of `/verif/fuzz`,
//! then re-judges every saved artifact with the ordinary build of the same oracle. Only a
//! failure that reproduces there becomes a VIOLATION (with a replay file); time-outs, OOMs and
//! artifacts that do not reproduce are counted as inconclusive.

use std::path::{Path, PathBuf};
use std::process::{Command, Stdio};

use serde_json::{json, Value};

use crate::fuzzglue::{self, decode_and_judge};
use crate::model::gen::{Bias, GenCfg};
use crate::model::print;
use crate::prop::{c01, c12, c16};
use crate::runner::{catch, Ctx, Outcome, Verdict};
use crate::tape::Tape;
use crate::util::{self, DIALECTS};

fn fuzz_bin(target: &str) -> PathBuf {
    let base = std::env::var("VERIF_FUZZ_TARGET_DIR").map(PathBuf::from).unwrap_or_else(|_| crate::verif_dir().join("fuzz").join("target"));
    base.join("x86_64-unknown-linux-gnu").join("release").join(target)
}

/// deterministic word stream for seed tapes (not part of any judged case: it only seeds a corpus)
fn lcg_words(seed: u64, n: usize) -> Vec<u16> {
    let mut x = seed.wrapping_mul(0x9E3779B97F4A7C15) | 1;
    (0..n)
        .map(|_| {
            x = x.wrapping_mul(6364136223846793005).wrapping_add(1442695040888963407);
            (x >> 40) as u16
        })
        .collect()
}

fn model_sources(n: u64) -> Vec<String> {
    let mut v = vec![];
    for i in 0..n {
        let words = lcg_words(i + 1, 400);
        let mut t = Tape::new(&words);
        let mut cfg = GenCfg::general();
        cfg.bias = *t.pick(&[Bias::General, Bias::Frame, Bias::Window, Bias::Sort]);
        cfg.hazards = c16::ALL_HAZARDS.to_vec();
        let c = c01::gen_case(&mut t, cfg);
        let mut src = print::program(&c.prog);
        if i % 3 == 0 {
            src = crate::model::lexdecor::decorate(&mut t, &src);
        }
        v.push(src);
    }
    v
}

/// Seed corpus of one target: the repository's integration queries, printed model programs (some
/// lexically decorated), their PL / RQ JSON, or seed tapes.
pub fn write_corpus(target: &str, dir: &Path) -> std::io::Result<usize> {
    std::fs::create_dir_all(dir)?;
    let mut n = 0usize;
    let mut put = |bytes: &[u8]| -> std::io::Result<()> {
        std::fs::write(dir.join(format!("seed-{n:04}")), bytes)?;
        n += 1;
        Ok(())
    };
    let mut sources = util::repo_queries();
    sources.extend(model_sources(60));
    match target {
        "lex_tile" | "fmt_rt" | "err_span" => {
            for s in &sources {
                if s.len() <= 4096 {
                    put(s.as_bytes())?;
                }
            }
            for s in crate::prop::c17::fuzz_seeds() {
                put(s.as_bytes())?;
            }
        }
        "staged" | "src_stages" => {
            for (i, s) in sources.iter().enumerate() {
                if s.len() <= 4096 {
                    let mut b = vec![(i % 26) as u8];
                    b.extend_from_slice(s.as_bytes());
                    put(&b)?;
                }
            }
        }
        "json_pl" | "json_rq" => {
            for (i, s) in sources.iter().enumerate() {
                let Ok(Ok(pl)) = catch(|| prqlc::prql_to_pl(s)) else { continue };
                let text = if target == "json_pl" {
                    match catch(|| prqlc::json::from_pl(&pl)) {
                        Ok(Ok(t)) => t,
                        _ => continue,
                    }
                } else {
                    let Ok(Ok(rq)) = catch(|| prqlc::pl_to_rq(pl)) else { continue };
                    match catch(|| prqlc::json::from_rq(&rq)) {
                        Ok(Ok(t)) => t,
                        _ => continue,
                    }
                };
                if text.len() <= 1 << 15 {
                    let mut b = vec![(i % DIALECTS.len()) as u8];
                    b.extend_from_slice(text.as_bytes());
                    put(&b)?;
                }
            }
        }
        _ => {
            for i in 0..48u64 {
                let words = lcg_words(1000 + i, 300);
                let b: Vec<u8> = words.iter().flat_map(|w| w.to_le_bytes()).collect();
                put(&b)?;
            }
        }
    }
    Ok(n)
}

/// `pv fuzzjudge <target> <file>`: one JSON line {verdict, what, check, case, detail}
pub fn fuzzjudge_main(target: &str, file: &str) -> i32 {
    let Ok(data) = std::fs::read(file) else { return 2 };
    let line = match decode_and_judge(target, &data) {
        None => json!({"verdict": "not_applicable"}),
        Some(d) => {
            let (v, what, detail) = match &d.outcome.verdict {
                Verdict::Pass => ("pass", String::new(), Value::Null),
                Verdict::Skip(w) => ("skip", w.clone(), Value::Null),
                Verdict::Known(id, w) => ("known", format!("{id}\u{1}{w}"), Value::Null),
                Verdict::Fail(w, det) => ("fail", w.clone(), det.clone()),
            };
            json!({"verdict": v, "what": what, "check": d.check, "case": d.case, "detail": detail})
        }
    };
    println!("{line}");
    0
}

/// `pv fuzzcorpus <target> <dir>`
pub fn fuzzcorpus_main(target: &str, dir: &str) -> i32 {
    match write_corpus(target, Path::new(dir)) {
        Ok(n) => {
            println!("{n} seeds written to {dir}");
            0
        }
        Err(e) => {
            eprintln!("{e}");
            2
        }
    }
}

/// `pv fuzz <target> <seconds> [max_len]`: one campaign outside any registered check (no evidence written)
pub fn fuzz_main(target: &str, seconds: u64, max_len: usize, seed: u64) -> i32 {
    let Some((property, _)) = fuzzglue::target_info(target) else { return 2 };
    let ctx = Ctx::new(property, crate::runner::Tier::Thorough, seed);
    ctx.fuzz_campaign(target, seconds, max_len);
    let st = ctx.stats.lock().unwrap();
    for (id, (n, what)) in &st.known_hits {
        println!("KNOWN-FINDING: property={property} {id} :: {what} (met {n} times)");
    }
    println!("{}", serde_json::to_string_pretty(&st.extra).unwrap_or_default());
    for n in &st.notes {
        println!("note: {n}");
    }
    if st.violations.is_empty() { 0 } else { 1 }
}

impl Ctx {
    /// wall-clock budget of one campaign in the thorough tier (VERIF_FUZZ_SECS overrides)
    pub fn fuzz_secs(&self, default: u64) -> u64 {
        std::env::var("VERIF_FUZZ_SECS").ok().and_then(|s| s.parse().ok()).unwrap_or(default)
    }
    /// One libFuzzer campaign of `seconds` wall-clock seconds on all cores (fork mode; crashes,
    /// time-outs and OOMs do not end it), followed by strict re-judgement of the artifacts.
    pub fn fuzz_campaign(&self, target: &str, seconds: u64, max_len: usize) {
        let Some((property, check)) = fuzzglue::target_info(target) else { return };
        let bin = fuzz_bin(target);
        if std::env::var("VERIF_NO_FUZZ").is_ok() {
            self.note(format!("fuzz target {target}: campaigns disabled (VERIF_NO_FUZZ); not run"));
            return;
        }
        if !bin.exists() {
            self.note(format!("fuzz target {target}: binary not built ({}); campaign skipped", bin.display()));
            eprintln!("warning: fuzz target {target} is not built; run bin/setup-fuzz");
            return;
        }
        let work = crate::verif_dir().join("fuzz").join("corpus-work").join(format!("{target}-{}", self.seed));
        let _ = std::fs::remove_dir_all(&work);
        let (corpus, seeds, art) = (work.join("corpus"), work.join("seeds"), work.join("artifacts"));
        for d in [&corpus, &art] {
            if std::fs::create_dir_all(d).is_err() {
                self.note(format!("fuzz target {target}: cannot create {}", d.display()));
                return;
            }
        }
        let nseeds = write_corpus(target, &seeds).unwrap_or(0);
        let log_path = work.join("fuzz.log");
        let Ok(log) = std::fs::File::create(&log_path) else { return };
        let t0 = std::time::Instant::now();
        use std::os::unix::process::CommandExt;
        let spawned = Command::new(&bin)
            .process_group(0)
            .arg(format!("-fork={}", self.threads.max(1)))
            .args(["-ignore_crashes=1", "-ignore_timeouts=1", "-ignore_ooms=1", "-len_control=0", "-timeout=25", "-rss_limit_mb=4096", "-print_final_stats=1"])
            .arg(format!("-max_total_time={seconds}"))
            .arg(format!("-seed={}", (self.seed % 0xffff_fffe) + 1))
            .arg(format!("-max_len={max_len}"))
            .arg(format!("-artifact_prefix={}/", art.display()))
            .arg(&corpus)
            .arg(&seeds)
            .env("VERIF_DIR", crate::verif_dir())
            .env("TMPDIR", &work)
            .stdin(Stdio::null())
            .stdout(Stdio::null())
            .stderr(Stdio::from(log))
            .spawn();
        // watchdog: a job that never returns (an input on which a stage does not terminate cannot be
        // interrupted from inside) must not hang the check; the whole process group is ended 90 s
        // after the budget and the campaign is counted with what it found until then
        let status: std::io::Result<std::process::ExitStatus> = match spawned {
            Err(e) => Err(e),
            Ok(mut child) => {
                let pgid = child.id();
                let mut killed = false;
                loop {
                    match child.try_wait() {
                        Ok(Some(st)) => break Ok(st),
                        Ok(None) if t0.elapsed().as_secs() > seconds + 90 && !killed => {
                            let _ = Command::new("kill").args(["-9", &format!("-{pgid}")]).status();
                            killed = true;
                            self.note(format!("fuzz target {target}: a fuzzing job did not return {} s after the budget; the campaign was ended by the watchdog (inconclusive for that job)", 90));
                        }
                        Ok(None) => std::thread::sleep(std::time::Duration::from_millis(200)),
                        Err(e) => break Err(e),
                    }
                }
            }
        };
        let wall = t0.elapsed().as_secs_f64();
        let text = std::fs::read_to_string(&log_path).unwrap_or_default();
        // fork mode progress lines: `#123: cov: 1 ft: 2 corp: 3 exec/s 4 oom/timeout/crash: 0/0/0 time: 5s job: 6 dft_time: 0`
        let mut last = (0u64, 0u64, 0u64, 0u64, String::new());
        for l in text.lines() {
            let Some(rest) = l.strip_prefix('#') else { continue };
            let Some((n, tail)) = rest.split_once(':') else { continue };
            let Ok(n) = n.trim().parse::<u64>() else { continue };
            let num_after = |key: &str| -> u64 {
                tail.split(key).nth(1).and_then(|s| s.split_whitespace().next()).and_then(|s| s.parse().ok()).unwrap_or(0)
            };
            let otc = tail.split("oom/timeout/crash:").nth(1).and_then(|s| s.split_whitespace().next()).unwrap_or("").to_string();
            last = (n, num_after("cov:"), num_after("ft:"), num_after("corp:"), otc);
        }
        let mut arts: Vec<PathBuf> = std::fs::read_dir(&art).map(|rd| rd.filter_map(|e| e.ok().map(|e| e.path())).collect()).unwrap_or_default();
        arts.sort();
        let (mut crashes, mut timeouts, mut ooms, mut reproduced, mut known, mut unreproduced, mut died) = (0u64, 0u64, 0u64, 0u64, 0u64, 0u64, 0u64);
        let mut seen_whats: Vec<String> = vec![];
        let rejudge_start = std::time::Instant::now();
        let mut not_rejudged = 0u64;
        let exe = std::env::current_exe().ok();
        for a in &arts {
            let name = a.file_name().and_then(|n| n.to_str()).unwrap_or("");
            if name.starts_with("timeout-") || name.starts_with("slow-unit-") {
                timeouts += 1;
                continue;
            }
            if name.starts_with("oom-") {
                ooms += 1;
                continue;
            }
            if !name.starts_with("crash-") && !name.starts_with("leak-") {
                continue;
            }
            crashes += 1;
            // re-judgement is bounded: 60 artifacts and 10 minutes per campaign (the rest is counted only)
            if crashes > 60 || rejudge_start.elapsed().as_secs() > 600 {
                not_rejudged += 1;
                continue;
            }
            // strict re-judgement in a child process (an input that kills the process must not kill the check)
            let Some(exe) = &exe else { continue };
            // (bounded: an artifact on which a stage does not terminate must not hang the check)
            let outfile = work.join("judge.out");
            let spawned = std::fs::File::create(&outfile).ok().and_then(|f| {
                Command::new(exe).args(["fuzzjudge", target]).arg(a).env("VERIF_DIR", crate::verif_dir()).stderr(Stdio::null()).stdout(Stdio::from(f)).spawn().ok()
            });
            let mut finished_ok = false;
            if let Some(mut child) = spawned {
                let t1 = std::time::Instant::now();
                loop {
                    match child.try_wait() {
                        Ok(Some(st)) => {
                            finished_ok = st.success();
                            break;
                        }
                        Ok(None) if t1.elapsed().as_secs() > 75 => {
                            let _ = child.kill();
                            let _ = child.wait();
                            timeouts += 1;
                            break;
                        }
                        Ok(None) => std::thread::sleep(std::time::Duration::from_millis(50)),
                        Err(_) => break,
                    }
                }
                if !finished_ok && t1.elapsed().as_secs() > 75 {
                    continue; // inconclusive (time-out), counted above
                }
            }
            let parsed: Option<Value> = if finished_ok { std::fs::read(&outfile).ok().and_then(|o| serde_json::from_slice(o.split(|b| *b == b'\n').next().unwrap_or(&[])).ok()) } else { None };
            match parsed {
                Some(v) => match v["verdict"].as_str().unwrap_or("") {
                    "fail" => {
                        let what = v["what"].as_str().unwrap_or("").to_string();
                        // one replay per distinct failure text (a campaign finds the same failure many times)
                        let key: String = what.chars().filter(|c| !c.is_ascii_digit()).collect();
                        if seen_whats.contains(&key) {
                            continue;
                        }
                        seen_whats.push(key);
                        reproduced += 1;
                        let mut o = Outcome::fail(&what, v["detail"].clone());
                        o.classes.push(format!("fuzz:{target}"));
                        self.record(check, &v["case"], &o);
                    }
                    "known" => {
                        known += 1;
                        let w = v["what"].as_str().unwrap_or("");
                        let (id, what) = w.split_once('\u{1}').unwrap_or((w, ""));
                        let mut o = Outcome::pass();
                        o.verdict = Verdict::Known(id.to_string(), what.to_string());
                        self.record(check, &v["case"], &o);
                    }
                    _ => unreproduced += 1,
                },
                None => {
                    // the child died: for C12's targets that is the property's subject (judged by the
                    // isolated worker, which also knows the recorded aborts); elsewhere it is not
                    died += 1;
                    if property == "C12" {
                        if let Ok(data) = std::fs::read(a) {
                            if let Some((h, rest)) = data.split_first() {
                                if let Ok(s) = std::str::from_utf8(rest) {
                                    let kind = match target {
                                        "src_stages" => "source",
                                        "json_pl" => "pl-json",
                                        _ => "rq-json",
                                    };
                                    let c = c12::Case { kind: kind.into(), input: s.to_string(), dialect: (*h as usize) % DIALECTS.len() };
                                    let o = c12::check(&c, &self.known);
                                    self.record(check, &c, &o);
                                }
                            }
                        }
                    }
                }
            }
        }
        let entry = json!({
            "target": target, "engine": "libFuzzer (cargo-fuzz, fork mode)", "budget_s": seconds, "wall_s": wall, "max_len": max_len,
            "seed_corpus_files": nseeds, "executions": last.0, "coverage_edges": last.1, "features": last.2, "corpus_units": last.3,
            "oom_timeout_crash": last.4, "exit": status.map(|s| s.code()).ok().flatten(),
            "artifacts": {"crash": crashes, "timeout": timeouts, "oom": ooms},
            "rejudged": {"reproduced_as_violation": reproduced, "attributed_to_known_finding": known, "not_reproduced": unreproduced, "process_died": died, "not_rejudged_over_budget": not_rejudged},
        });
        let mut st = self.stats.lock().unwrap();
        let e = st.extra.entry("fuzz_campaigns".to_string()).or_insert_with(|| json!([]));
        if let Some(a) = e.as_array_mut() {
            a.push(entry);
        }
        if timeouts + ooms > 0 {
            st.notes.push(format!("fuzz target {target}: {timeouts} time-out and {ooms} out-of-memory artifacts (inconclusive, not judged)"));
        }
        if unreproduced > 0 {
            st.notes.push(format!("fuzz target {target}: {unreproduced} crash artifacts did not reproduce as a failure under the ordinary build (not judged)"));
        }
        drop(st);
        // keep the working directory only when something was found
        if reproduced == 0 {
            let _ = std::fs::remove_dir_all(&work);
        }
    }
}
