use pv::sqlbind::*;
use std::collections::HashMap;
fn main() {
    let mut tables = HashMap::new();
    tables.insert("t1".to_string(), vec!["id".to_string(), "a".to_string(), "b".to_string()]);
    tables.insert("t2".to_string(), vec!["id".to_string(), "a".to_string(), "c".to_string()]);
    let schema = Schema { tables, fold_case: false };
    let o = |d| pv::util::opts(Some(d));
    for src in [
        "from t1 | select {id, a} | join r0 = (from t2 | select {id, c}) (t1.id == r0.id) | sort {a} | take 3 | group {a} (aggregate {n = count this})",
        "from t1 | sort {(a * -1), id}",
        "from t1 | select {id, a} | sort {-id} | select {c3 = id + 1} | filter c3 > 0 | take ..2 | group {c3} (aggregate {n = count this})",
        "from t1 | select !{a} | take 2",
        "from t1 | group a (take 1)",
    ] {
        for (dn, d) in pv::util::DIALECTS {
            match prqlc::compile(src, &o(*d)) {
                Ok(sql) => match bind(&sql, dn, &schema) {
                    Parsed::Syntax(e) => println!("{dn}: SYNTAX {e} :: {sql}"),
                    Parsed::Ok(b) => println!("{dn}: cols={:?} errors={:?}", b.columns, b.errors),
                },
                Err(e) => println!("{dn}: ERR {}", e.inner[0].reason),
            }
        }
        println!();
    }
}
