// diagnose a PL JSON round trip: prints the first differing region of the two JSON texts
fn main() {
    let src = std::fs::read_to_string(std::env::args().nth(1).unwrap()).unwrap();
    let pl = prqlc::prql_to_pl(&src).unwrap();
    let j = prqlc::json::from_pl(&pl).unwrap();
    let pl2 = prqlc::json::to_pl(&j).unwrap();
    let j2 = prqlc::json::from_pl(&pl2).unwrap();
    println!("pl equal: {}  json equal: {}", pl == pl2, j == j2);
    if j != j2 {
        let i = j.bytes().zip(j2.bytes()).position(|(a, b)| a != b).unwrap_or(0);
        let lo = i.saturating_sub(80);
        println!("first: {:?}\nsecond: {:?}", &j.get(lo..(i + 80).min(j.len())), &j2.get(lo..(i + 80).min(j2.len())));
    }
}
