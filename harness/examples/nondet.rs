fn main() {
    let src = std::env::args().nth(1).unwrap();
    let o = prqlc::Options::default().no_signature().no_format();
    let mut seen = std::collections::BTreeMap::new();
    for _ in 0..40 {
        let r = match prqlc::compile(&src, &o) { Ok(s) => s, Err(e) => format!("ERR {:?}", e.inner.iter().map(|m| format!("{} {:?}", m.reason, m.hints)).collect::<Vec<_>>()) };
        *seen.entry(r).or_insert(0) += 1;
    }
    for (k, v) in seen { println!("{v}x {k}"); }
}
