fn main() {
    for a in std::env::args().skip(1) {
        println!("--- {a}");
        let pl = prqlc::prql_to_pl(&a).unwrap();
        match prqlc::pl_to_rq(pl) {
            Ok(rq) => {
                println!("columns: {:?}", rq.relation.columns);
                if std::env::var("FULL").is_ok() { println!("{}", serde_json::to_string_pretty(&rq).unwrap()); }
            }
            Err(e) => println!("ERR {:?}", e.inner.iter().map(|m| m.reason.clone()).collect::<Vec<_>>()),
        }
    }
}
