// prints generated programs whose compile outcome matches a substring
use pv::model::gen::*;
use pv::model::print;
use pv::tape::Tape;
use pv::util::{compile, Compiled};
fn main() {
    pv::runner::install_panic_hook();
    let pat = std::env::args().nth(1).unwrap_or_default();
    let max: usize = std::env::args().nth(2).and_then(|s| s.parse().ok()).unwrap_or(5);
    let mut seed: u64 = 12345;
    let mut shown = 0;
    for _ in 0..200000 {
        let mut words = vec![];
        let n = (seed >> 7) % 300;
        for _ in 0..n {
            seed = seed.wrapping_mul(6364136223846793005).wrapping_add(1442695040888963407);
            words.push((seed >> 33) as u16);
        }
        seed = seed.wrapping_mul(6364136223846793005).wrapping_add(1442695040888963407);
        let mut t = Tape::new(&words);
        let g = Gen::new(&mut t, GenCfg::general());
        let (_db, prog, _f, _t) = g.gen_prog();
        let src = print::program(&prog);
        let msg = match compile(&src, Some(prqlc::sql::Dialect::SQLite)) {
            Compiled::Sql(_) => continue,
            Compiled::Err(r) => r.join(" | "),
            Compiled::Panic(p) => format!("PANIC {}:{} {}", p.file, p.line, p.message),
        };
        if msg.contains(&pat) {
            println!("=== {msg}\n{src}");
            shown += 1;
            if shown >= max { break; }
        }
    }
}
