fn main() {
    let opts = prqlc::Options::default().no_signature().no_format();
    for a in std::env::args().skip(1) {
        println!("--- {a}");
        match prqlc::compile(&a, &opts) {
            Ok(s) => println!("{s}"),
            Err(e) => println!("ERR {}", e.inner.iter().map(|m| format!("{:?} | {} | {:?} | {:?}", m.kind, m.reason, m.span, m.location)).collect::<Vec<_>>().join("\n")),
        }
    }
}
