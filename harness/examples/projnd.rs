// repeats a multi-file project compile on fresh threads and prints the distinct outcomes
use std::path::PathBuf;
fn main() {
    let files: Vec<(PathBuf, String)> = vec![
        ("Project.prql".into(), "from b.tbl | join Zed.tbl (==id) | join a_b.tbl (==id) | select {b.tbl.id, a, b, c = Zed.tbl.k}\n".to_string()),
        ("Zed.prql".into(), "let tbl = (from t3 | select {id, k})\n".to_string()),
        ("b.prql".into(), "let tbl = (from t1 | select {id, a})\n".to_string()),
        ("a_b.prql".into(), "let tbl = (from b.tbl | join r = (from t2 | select {id, b}) (==id) | select {b.tbl.id, b})\n".to_string()),
    ];
    let mut seen = std::collections::BTreeMap::new();
    for _ in 0..60 {
        let files = files.clone();
        let r = std::thread::spawn(move || {
            let tree = prqlc::SourceTree::new(files, None);
            let o = prqlc::Options::default().no_signature().no_format();
            match prqlc::prql_to_pl_tree(&tree).and_then(|pl| prqlc::pl_to_rq_tree(pl, &[], &[])).and_then(|rq| prqlc::rq_to_sql(rq, &o)) {
                Ok(s) => s,
                Err(e) => format!("ERR {:?}", e.inner.iter().map(|m| format!("{} {:?} {:?}", m.reason, m.hints, m.span)).collect::<Vec<_>>()),
            }
        })
        .join()
        .unwrap();
        *seen.entry(r).or_insert(0) += 1;
    }
    for (k, v) in seen {
        println!("{v}x {k}");
    }
}
