fn main() {
    let src = "let l = (from t2 | select {a, c})\nfrom l | select {a}";
    let rq = prqlc::pl_to_rq(prqlc::prql_to_pl(src).unwrap()).unwrap();
    let mut v: serde_json::Value = serde_json::from_str(&prqlc::json::from_rq(&rq).unwrap()).unwrap();
    println!("{}", v["tables"][1]["relation"]["kind"]["Pipeline"][0]);
    v["tables"][1]["relation"]["kind"]["Pipeline"][0]["From"]["source"] = serde_json::json!(1);
    let rq2 = prqlc::json::to_rq(&v.to_string()).unwrap();
    println!("{:?}", prqlc::rq_to_sql(rq2, &prqlc::Options::default()).map(|s| s.len()));
}
