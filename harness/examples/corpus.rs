fn main() {
    let v = pv::util::corpus_programs();
    let (mut ok, mut parse) = (0, 0);
    for s in &v {
        if prqlc::prql_to_pl(s).is_ok() { parse += 1; }
        if matches!(pv::util::compile(s, None), pv::util::Compiled::Sql(_)) { ok += 1; }
    }
    println!("{} programs, {} parse, {} compile", v.len(), parse, ok);
}
