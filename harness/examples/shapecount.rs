// counts generated programs matching regexes given on the command line (default generator)
use pv::model::gen::*;
use pv::model::print;
use pv::tape::Tape;
fn main() {
    let pats: Vec<regex::Regex> = std::env::args().skip(1).map(|p| regex::Regex::new(&p).unwrap()).collect();
    let mut counts = vec![0usize; pats.len()];
    let mut shown = vec![0usize; pats.len()];
    let mut seed: u64 = 4242;
    let n = 30000;
    for _ in 0..n {
        let mut words = vec![];
        let k = (seed >> 7) % 300;
        for _ in 0..k {
            seed = seed.wrapping_mul(6364136223846793005).wrapping_add(1442695040888963407);
            words.push((seed >> 33) as u16);
        }
        seed = seed.wrapping_mul(6364136223846793005).wrapping_add(1442695040888963407);
        let mut t = Tape::new(&words);
        let mut cfg = GenCfg::general();
        if let Ok(h) = std::env::var("HAZ") {
            cfg.hazards = pv::prop::c16::ALL_HAZARDS.iter().copied().filter(|x| h.split(',').any(|y| y == *x)).collect();
        }
        if std::env::var("BIAS").as_deref() == Ok("Sort") { cfg.bias = Bias::Sort; }
        if std::env::var("BIAS").as_deref() == Ok("Window") { cfg.bias = Bias::Window; }
        if std::env::var("APPEND_BOOST").is_ok() { cfg.append_boost = true; cfg.bias = Bias::Frame; }
        let g = Gen::new(&mut t, cfg);
        let (_db, prog, _f, _t) = g.gen_prog();
        let src = print::program(&prog);
        for (i, p) in pats.iter().enumerate() {
            if p.is_match(&src) {
                counts[i] += 1;
                if shown[i] < 2 {
                    shown[i] += 1;
                    println!("--- [{}]\n{src}", p.as_str());
                }
            }
        }
    }
    for (i, p) in pats.iter().enumerate() {
        println!("{:>6} / {n}  {}", counts[i], p.as_str());
    }
}
