fn main() {
    let f = std::env::args().nth(1).unwrap();
    let v: serde_json::Value = serde_json::from_str(&std::fs::read_to_string(f).unwrap()).unwrap();
    let r: Result<pv::prop::c01::Case, _> = serde_json::from_value(v["case"].clone());
    match r {
        Ok(_) => println!("ok"),
        Err(e) => println!("ERR {e}"),
    }
}
