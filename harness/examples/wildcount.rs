// counts generated programs with a join of two wildcard relations followed by select !{..}
use pv::model::gen::*;
use pv::model::print;
use pv::tape::Tape;
fn main() {
    std::panic::set_hook(Box::new(|_| {}));
    let mut seed: u64 = 999;
    let (mut n, mut exc, mut duck, mut shown) = (0, 0, 0, 0);
    for _ in 0..3000 {
        let mut words = vec![];
        let k = (seed >> 7) % 300;
        for _ in 0..k {
            seed = seed.wrapping_mul(6364136223846793005).wrapping_add(1442695040888963407);
            words.push((seed >> 33) as u16);
        }
        seed = seed.wrapping_mul(6364136223846793005).wrapping_add(1442695040888963407);
        let mut t = Tape::new(&words);
        let mut cfg = GenCfg::general(); cfg.hazards = vec!["wild_except"]; cfg.bias = Bias::Frame;
        let g = Gen::new(&mut t, cfg);
        let (_db, prog, _f, _t) = g.gen_prog();
        let src = print::program(&prog);
        n += 1;
        if src.contains("select !{") {
            exc += 1;
            if shown < 14 { shown += 1; println!("--- noselect\n{src}"); }
            if let Ok(Ok(sql)) = std::panic::catch_unwind(|| prqlc::compile(&src, &prqlc::Options::default().no_signature().with_target(prqlc::Target::Sql(Some(prqlc::sql::Dialect::DuckDb))))) {
                if sql.contains("EXCLUDE") {
                    duck += 1;
                    if sql.matches(".*").count() >= 2 && shown < 6 { shown += 1; println!("---\n{src}\n{sql}"); }
                }
            }
        }
    }
    println!("n={n} with_select_except={exc} duckdb_EXCLUDE={duck}");
}
