// compiles one source on many fresh threads and prints the distinct outcomes
fn main() {
    let src = std::fs::read_to_string(std::env::args().nth(1).unwrap()).unwrap();
    let mut seen = std::collections::BTreeMap::new();
    for _ in 0..80 {
        let s = src.clone();
        let r = std::thread::spawn(move || {
            let o = prqlc::Options::default().no_signature().no_format();
            match prqlc::compile(&s, &o) {
                Ok(x) => x,
                Err(e) => format!("ERR {:?}", e.inner.iter().map(|m| m.reason.clone()).collect::<Vec<_>>()),
            }
        })
        .join()
        .unwrap_or_else(|_| "PANIC".into());
        *seen.entry(r).or_insert(0) += 1;
    }
    println!("{} distinct outputs", seen.len());
    for (k, v) in seen {
        println!("{v}x {}", &k[k.len().saturating_sub(200)..]);
    }
}
