// runs SQL statements (args after the replay file) against the database of a replay file
fn main() {
    let f = std::env::args().nth(1).unwrap();
    let v: serde_json::Value = serde_json::from_str(&std::fs::read_to_string(f).unwrap()).unwrap();
    let db: pv::model::ast::Db = serde_json::from_value(v["case"]["db"].clone()).unwrap();
    for sql in std::env::args().skip(2) {
        let r = if std::env::var("NOOPT").is_ok() { pv::model::exec::run_unoptimized(&db, &sql) } else { pv::model::exec::run(&db, &sql) };
        match r {
            Ok(r) => println!("{:?}", r.rows.iter().map(|r| r.iter().map(|v| v.show()).collect::<Vec<_>>()).collect::<Vec<_>>()),
            Err(e) => println!("ERR {}", e.msg()),
        }
    }
}
