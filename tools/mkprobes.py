#!/usr/bin/env python3
"""Writes the deterministic finding probes (replays/<prop>/probe-<finding>.json) and keeps the
findings list of known_findings.json in one reviewed place. Run by hand when a finding is added;
never at check time."""
import json, os
V = "/verif"
def I(x): return {"Int": x}
def T(x): return {"Text": x}
N = "Null"
DB = {"tables": [
 {"name": "t1", "cols": [{"name":"id","ty":"Int"},{"name":"a","ty":"Int"},{"name":"b","ty":"Int"}],
  "rows": [[I(1),I(1),I(10)],[I(2),I(1),I(20)],[I(3),I(2),N]]},
 {"name": "t2", "cols": [{"name":"id","ty":"Int"},{"name":"a","ty":"Int"},{"name":"c","ty":"Int"}],
  "rows": [[I(1),I(5),I(7)],[I(2),I(6),I(8)]]},
]}
FINDINGS = []
def finding(fid, prop, also, sig, desc, probe=None):
    FINDINGS.append({"id": fid, "property": prop, "also_seen_by": also, "status": "open",
                     "signature": sig, "description": desc,
                     "example": probe["source"] if probe else ""})
    if probe:
        for p in [prop] + also:
            if p not in probe.get("props", [prop] + also): continue
            d = os.path.join(V, "replays", p); os.makedirs(d, exist_ok=True)
            body = {"property": p, "check": "probe", "what": "finding probe", "case": {
                "finding": fid, "source": probe["source"], "target": probe.get("target", "sqlite"), "db": probe.get("db", DB),
                "expect_rows": probe.get("rows"), "expect_arity": probe["arity"],
                "expect_ordered": probe.get("ordered", False)}}
            json.dump(body, open(os.path.join(d, f"probe-{fid}.json"), "w"), indent=1)

finding("C01-aggregate-pruned", "C01", [],
 "program whose `aggregate` (with or without group) has no surviving value-dependent use downstream (hazard drop_agg)",
 "An aggregate none of whose result columns is used later is pruned together with its cardinality effect: `from t1 | aggregate {c = count this} | select {x = 1}` compiles to `WITH table_0 AS (SELECT NULL FROM t1) SELECT 1 AS x FROM table_0` and returns one row per input row instead of exactly one row. Also through chains (`aggregate | aggregate {count c}`), since COUNT(*) ignores its argument.",
 {"source": "from t1 | aggregate {c = count this} | select {x = 1}", "arity": 1, "rows": [[I(1)]]})
finding("C05-dedup-select-items", "C05", ["C01", "C07"],
 "a projection listing two qualified, un-aliased columns with the same column name from different relations (hazard dup_names)",
 "deduplicate_select_items (sql/gen_projection.rs) keeps a compound identifier only if one of its parts was not seen before: `from t1 | select {id, a} | join r0 = (from t2 | select {id, a, c}) (t1.id == r0.id)` emits `t1.id, t1.a, table_0.id, table_0.c` — the frame has 5 columns, the result 4 (table_0.a is dropped). Pinned by snapshots (test_output_column_deduplication), so recorded rather than repaired.",
 {"source": "from t1 | select {id, a} | join r0 = (from t2 | select {id, a, c}) (t1.id == r0.id)", "arity": 5,
  "rows": [[I(1),I(1),I(1),I(5),I(7)],[I(2),I(1),I(2),I(6),I(8)]]})
finding("C05-same-column-merged", "C05", ["C01"],
 "the same column selected / derived twice in one frame (`derive {b = b}`, `select {x = id, id}`, `derive {c = a}` + later split) (hazard dup_select)",
 "Two frame columns backed by the same column id are merged or re-ordered: `from t1 | select {a, b} | derive {b = b}` has the 3-column frame [a, _, b] in RQ and compiles to `SELECT a, b FROM t1`.",
 {"source": "from t1 | select {a, b} | derive {b = b}", "arity": 3})
finding("C07-offset-without-limit", "C07", ["C01", "C03", "C06"],
 "`take a..` with a > 1 and no upper bound under a dialect that needs LIMIT before OFFSET (sqlite) (hazard open_take)",
 "`from t1 | select {id} | sort id | take 2..` compiles for sqlite to `... ORDER BY id OFFSET 1`, which SQLite rejects (near \"OFFSET\": syntax error); SQLite needs `LIMIT -1 OFFSET 1`.",
 {"source": "from t1 | select {id} | sort id | take 2..", "arity": 1, "rows": [[I(2)],[I(3)]], "ordered": True})
finding("C05-wildcard-helper-leak", "C05", ["C01", "C06", "C09"],
 "helper column (computed sort key, ROW_NUMBER of take-in-group, windowed filter operand, sort key dropped by a later select) or a user exclusion `select !{..}` in a query whose projection is a wildcard, on a dialect without EXCLUDE / EXCEPT, i.e. any dialect but duckdb, snowflake, bigquery (hazards wild_helpers, wild_except)",
 "`from t1 | sort {(a * -1), id}` compiles to `SELECT *, a * -1 AS _expr_0 FROM t1 ORDER BY _expr_0, id`: the result has the extra column _expr_0 (translate_exclude logs a warning and proceeds; its TODO says it should be an error). Same root for user exclusions: `from t1 | select !{a}` is `SELECT * FROM t1` under generic / sqlite / postgres ..., the excluded column is still in the result. Under duckdb / snowflake / bigquery both are emitted with EXCLUDE / EXCEPT and the check decides them strictly.",
 {"source": "from t1 | sort {(a * -1), id}", "arity": 3, "rows": [[I(3),I(2),N],[I(1),I(1),I(10)],[I(2),I(1),I(20)]], "ordered": True})
finding("C01-append-pruning", "C01", ["C07", "C06", "C05"],
 "append whose top input is a let-table, is sorted, is a group/aggregate/join result, or that is followed by a projection (hazard append_free)",
 "Column pruning and sort-column propagation treat the two inputs of `append` differently: `let l0 = (from t1 | select {a, b})  from l0 | append (from t2 | select {a, c}) | select {b, a}` emits `SELECT b, a FROM l0 UNION ALL SELECT a, c FROM t2` (columns of the bottom not swapped: wrong rows); with `select {a}` the bottom keeps two columns (SQL error); `... | sort {a} | append ...` and `group .. | append ..` drop / reorder bottom columns.",
 {"source": "let l0 = (from t1 | select {a, b})\nfrom l0 | append (from t2 | select {a, c}) | select {b, a}", "arity": 2,
  "rows": [[I(10),I(1)],[I(20),I(1)],[N,I(2)],[I(7),I(5)],[I(8),I(6)]]})
finding("C02-sqlite-divi-small-int", "C02", ["C01", "C03", "C04", "C05", "C09"],
 "dialect sqlite, operator `//`, both operands integers with 0 < |l| < |r| (hazard int_divi)",
 "sqlite's `//` template is `ROUND(ABS(l / r) - 0.5) * SIGN(l) * SIGN(r)`; for integers `l / r` truncates to 0 and ROUND(-0.5) = -1, so `1 // 2` = -1 instead of 0. The template text is pinned by snapshots.",
 {"source": "from t1 | select {c = id // 4}", "arity": 1, "rows": [[I(0)],[I(0)],[I(0)]]})
finding("C04-first-last-frame", "C04", ["C01"],
 "`last` (any frame) or `first` under an explicit rows/range/rolling/expanding window (hazard unframed_last)",
 "first/last never receive a frame clause: `sort id | derive {l = last id}` -> `LAST_VALUE(id) OVER (ORDER BY id)` whose SQL default frame ends at the current row (value = current row, not the last of the partition); `window rows:-3..1 (derive {l = last id})` also has no ROWS clause.",
 {"source": "from t1 | select {id, b} | sort id | derive {l = last id}", "arity": 3,
  "rows": [[I(1),I(10),I(3)],[I(2),I(20),I(3)],[I(3),N,I(3)]], "ordered": True})
finding("C07-sorted-cte-order-by-scope", "C07", ["C01", "C03", "C06"],
 "a let-table / sub-pipeline that ends with a sort in effect and is referenced more than once or joined (hazard sorted_let)",
 "The sort of a CTE is re-emitted at the end of the main query with the original table qualifier: `let l0 = (from t1 | select {id, a, b} | sort {id, b})  from l0 | select {id} | join r0 = l0 (l0.id == r0.id) | select {l0.id, c0 = r0.id, a}` ends in `ORDER BY t1.id, t1.b` although t1 only exists inside the CTE (no such column).",
 {"source": "let l0 = (from t1 | select {id, a, b} | sort {id, b})\nfrom l0 | select {id} | join r0 = l0 (l0.id == r0.id) | select {l0.id, c0 = r0.id, a}", "arity": 3,
  "rows": [[I(1),I(1),I(1)],[I(2),I(2),I(1)],[I(3),I(3),I(2)]], "ordered": True})
finding("C02-const-null-fold", "C02", ["C01"],
 "comparison (== / !=) with a constant sub-expression that folds to null (e.g. `case` whose conditions are all constant false) (hazard const_null_fold)",
 "`filter b != case [false => 1]`: the case folds to null and the comparison is then compiled as `b IS NOT NULL`; the unfolded expression `b <> CASE WHEN false THEN 1 END` is NULL for every row. Constant folding changes the value.",
 {"source": "from t1 | select {id, b} | filter b != case [false => 1]", "arity": 2, "rows": []})
finding("C05-shadowed-column-dropped", "C05", ["C01"],
 "`derive {x = f(x)}` (name shadowing) followed by a transform that forces a sub-query (hazard shadow)",
 "The shadowed, now unnamed, column is part of the frame (RQ keeps it) but is lost at the next split: `from t1 | select {id, a, b} | derive {b = -b} | group {a} (sort {id} | take 1)` returns 3 columns for a 4-column frame.",
 {"source": "from t1 | select {id, a, b} | derive {b = -b} | group {a} (sort {id} | take 1)", "arity": 4})
finding("C04-rank-shadow", "C04", ["C01", "C05"],
 "`derive {x = (rank x)}` / row_number: a ranking function whose (ignored) argument is the column it shadows (hazard shadow)",
 "`from t1 | select {id, a} | sort {a, id} | derive {id = (rank id)}` compiles to `SELECT id, a FROM t1 ORDER BY a, id`: the window function disappears and the old column is returned under the new name.",
 {"source": "from t1 | select {id, a} | sort {a, id} | derive {id = (rank id)}", "arity": 3})
finding("C07-group-by-constant", "C07", ["C01"],
 "group key that is (or folds to) an integer constant (hazard const_group_key)",
 "`derive {c0 = 2} | group {c0} (aggregate {s = sum a})` emits `GROUP BY 2`, which SQL reads as the second select item (SQLite: aggregate functions are not allowed in the GROUP BY clause).",
 {"source": "from t1 | select {id, a} | derive {c0 = 2} | group {c0} (aggregate {s = sum a})", "arity": 2, "rows": [[I(2),I(4)]]})
finding("C01-take-compound-aggregate", "C01", ["C03"],
 "`take` followed by `aggregate` whose item is an expression over aggregation functions (hazard compound_agg)",
 "`from t1 | select {id, a} | sort id | take 1 | aggregate {c0 = (sum id) + 1}` computes SUM before LIMIT (`SELECT COALESCE(SUM(id), 0) AS _expr_0 FROM t1 ORDER BY id LIMIT 1`): sums every row instead of the first one.",
 {"source": "from t1 | select {id, a} | sort id | take 1 | aggregate {c0 = (sum id) + 1}", "arity": 1, "rows": [[I(2)]]})
finding("C07-window-over-window-sort-scope", "C07", ["C01"],
 "window function over a windowed column, sorted on, then joined (hazard win_over_win)",
 "`window (derive {c0 = (rank id), c1 = (rank c0)}) | sort {c0, id} | take 1.. | join ...` emits `ORDER BY _expr_1` in a CTE that does not project _expr_1 (no such column).")
finding("C02-mul-right-operand-parens", "C02", ["C01"],
 "`*` whose right operand is a `%`, `/` or `//` expression, written directly or reached by inlining a computed column (hazard mul_right)",
 "`a * (b % 3)` is emitted as `a * b % 3` = (a*b) % 3: mul has no template and equal binding strength on the right is not parenthesised. `from t1 | select {c = id * (b % 3)}` gives 1 for (2, 20) instead of 4.",
 {"source": "from t1 | select {c = id * (b % 3)}", "arity": 1, "rows": [[I(1)],[I(4)],[N]]})
finding("C03-take-before-group-loses-sort", "C03", ["C01"],
 "`sort | take n | group k (derive ...)` (hazard sorted_group_derive)",
 "`from t1 | select {id, a} | sort {-id} | take 1 | group {a} (derive {c0 = id + 1})` compiles to `SELECT a, id, id + 1 AS c0 FROM t1 LIMIT 1`: the ORDER BY that defines which row `take 1` keeps is dropped.",
 {"source": "from t1 | select {id, a} | sort {-id} | take 1 | group {a} (derive {c0 = id + 1})", "arity": 3, "rows": [[I(2),I(3),I(4)]]})

finding("C03-dropped-sort-key-join", "C03", ["C01", "C07"],
 "a select drops a column the sort in effect refers to, then a join and a take follow (hazard dropped_key_join)",
 "`from t1 | select {id, a, b} | sort {a} | select {c0 = id + 1} | join r0 = (from t2 | select {c2 = id + 1}) (true) | take 1..1` emits `... table_1.a AS _expr_0 FROM table_1 INNER JOIN table_0 ON true ORDER BY table_1._expr_0 LIMIT 1`: the ORDER BY names the alias as if it were a column of table_1 (no such column).",
 {"source": "from t1 | select {id, a, b} | sort {a, id} | select {c0 = id + 1} | join r0 = (from t2 | filter id == 1 | select {c2 = id + 1}) (true) | take 1..2", "arity": 2,
  "rows": [[I(2),I(2)],[I(3),I(2)]], "ordered": True})

finding("C07-wildcard-let-derive-name", "C07", ["C01", "C09", "C06"],
 "a let-table / CTE whose frame is a wildcard (`from t` not projected) containing a derive followed by a filter, referenced from outside by the derived name (hazard wild_let)",
 "`let l0 = (from t1 | derive {c0 = id + 1} | filter b > 0)  from l0 | group {a} (aggregate {s = sum c0})` emits `WITH table_0 AS (SELECT *, id + 1 AS _expr_0 FROM t1), l0 AS (SELECT * FROM table_0 WHERE b > 0) SELECT a, COALESCE(SUM(c0), 0) ... FROM l0`: the derived column is named _expr_0 inside the CTE but referred to as c0 outside (no such column).",
 {"source": "let l0 = (from t1 | derive {c0 = id + 1} | filter b > 0)\nfrom l0 | group {a} (aggregate {s = sum c0})", "arity": 2, "rows": [[I(1),I(5)]]})

finding("C07-noop-take-keeps-sort", "C07", ["C01", "C03"],
 "`sort ... | take 1..` (a take with no effect) followed by group/aggregate that does not use the sort columns (hazard open_take)",
 "`from t1 | select {id, a, b} | sort {b, id} | take 1.. | group {a} (aggregate {m = min id})`: the sub-query keeps `ORDER BY b, id` but prunes b from its projection source, e.g. `table_0 AS (SELECT s, a, b FROM table_1 WHERE _expr_0 <= 1 ORDER BY x, id DESC)` (no such column).",
 None)

finding("C03-take-sort-take-merged", "C03", ["C01"],
 "`sort A | take n | sort B | take m | group {key of B} (aggregate ...)` (hazard resort_after_take)",
 "`from t1 | select {id, a} | sort {a, id} | take 1 | sort {-id} | take 1 | group {id} (aggregate {c1 = min a})` compiles to `WITH table_0 AS (SELECT id, a FROM t1 ORDER BY id DESC LIMIT 1) SELECT id, MIN(a) ... GROUP BY id`: the first sort+take is lost, the row with the largest id is returned instead of the first row by (a, id).",
 {"source": "from t1 | select {id, a} | sort {a, id} | take 1 | sort {-id} | take 1 | group {id} (aggregate {c1 = min a})", "arity": 2, "rows": [[I(1),I(1)]]})
finding("C07-sort-by-windowed-scope", "C07", ["C01", "C04"],
 "sort whose key is a windowed column, followed by a windowed filter, take and group (hazard sort_by_windowed)",
 "`group {b} (sort {id} | window expanding:true (derive {c3 = (rank id), c4 = (average 2.75)})) | sort {-c4, id} | filter (count id) > 0 | take ..3 | group {c3} (aggregate ...)` emits a CTE `... WHERE _expr_0 > 0 ORDER BY _expr_1 DESC, id LIMIT 3` over a sub-query that does not project _expr_1 (no such column).",
 None)

finding("C07-sort-column-pruned-before-take", "C07", ["C01", "C03", "C04"],
 "sort, then a projection that drops a sort key or a windowed filter, then take, then group/aggregate not using the sort columns (hazard take_far_from_sort)",
 "`from t1 | select {id, a} | sort {-id} | select {c3 = id + 1} | filter c3 > 0 | take ..2 | group {c3} (aggregate {n = count this})` emits `table_0 AS (SELECT c3 FROM table_1 WHERE c3 > 0 ORDER BY id DESC LIMIT 2)` although table_1 no longer projects id (no such column).",
 {"source": "from t1 | select {id, a} | sort {-id} | select {c3 = id + 1} | filter c3 > 0 | take ..2 | group {c3} (aggregate {n = count this})", "arity": 2, "rows": [[I(4),I(1)],[I(3),I(1)]]})

finding("C02-compare-right-operand-parens", "C02", ["C01"],
 "a comparison operator whose right operand is itself a comparison (`a == (b == c)`, `a != (b < c)`)",
 "`select {r = b1 == (i1 == i2)}` is emitted as `b1 = i1 = i2`, i.e. (b1 = i1) = i2: comparisons have no template, the same binding strength on the right is not parenthesised.",
 None)

finding("C02-divi-template-strength", "C02", ["C01"],
 "`x % (a // b)` or `x / (a // b)`: an integer division as (the left spine of) the right operand of `%` or `/`",
 "std.sql.prql declares `@{binding_strength=100} let div_i = l r -> s\"FLOOR(ABS(..)) * SIGN(..) * SIGN(..)\"` (sqlite: ROUND(..) * SIGN * SIGN): the body is a product, so as the right operand of `%` it needs parentheses it does not get: `(1 + 2) % (-2 // i1)` -> `(1 + 2) % FLOOR(ABS(-2 / i1)) * SIGN(-2) * SIGN(i1)` = ((1+2) % F) * S * S, wrong sign.",
 {"source": "from t1 | select {c = 7 % (a // (-1))}", "arity": 1, "rows": [[I(0)],[I(0)],[I(1)]]})

finding("C04-stale-sort-after-aggregate", "C04", ["C01", "C03"],
 "`sort ... | aggregate {...}` followed later by a window function (hazard sorted_aggregate)",
 "aggregate resets the order, but the sort in effect before it is still used as the ORDER BY of later window functions: `from t1 | select {id, a} | sort {-id} | aggregate {m = min a} | join side:right (from t2 | select {c = id}) (m == c) | derive {r = (rank c)}` emits `RANK() OVER (ORDER BY table_1.id DESC)`; without an order in effect every row has rank 1.",
 {"source": "from t1 | select {id, a} | sort {-id} | aggregate {m = min a} | join side:right r0 = (from t2 | select {c = id}) (m == c) | derive {r = (rank c)}", "arity": 3,
  "rows": [[I(1),I(1),I(1)],[N,I(2),I(1)]]})

finding("C16-computed-sort-key-lowered-into-subpipeline", "C16", ["C01", "C03", "C04", "C07"],
 "a sort with a computed key is in effect when a sub-pipeline or let-table is joined / appended; violation text `column id N used in table T transform 1 (Compute) is not defined before its use`",
 "`from t1 | select {id, a} | sort {(a * -1)} | join r0 = (from t2 | select {id, c}) (true) | group {a} (aggregate {n = count this})`: the Compute of the sort key `a * -1` is placed into the table declared for the sub-pipeline (table 2), where it refers to a column id of the main pipeline: the RQ is not closed.",
 None)
finding("C16-subpipeline-sort-leaks-into-main", "C16", ["C03"],
 "a join/append operand (sub-pipeline) or let-table that ends with a sort; violation text `column id N used as sort key in ... is defined in another pipeline or later`",
 "`from t1 | select {id, x} | join r0 = (from t2 | select {id} | sort {(id * -1)}) (t1.id == r0.id) | derive {c2 = (sum x)}`: the window of c2 is sorted by the column id of the sub-pipeline's sort key, which the Join's table reference does not expose (and join should keep only the order of the left input).",
 None)

finding("C14-float-loses-fraction", "C14", [],
 "a float literal whose value is integral (`3.0`, `-13.0`, `1e3`): formatted text re-parses to an Integer literal; reported as first differing path `...Literal.Float`",
 "Literal::Float is printed with `{}`: `derive {c = 3.0}` is formatted as `derive {c = 3}`, which parses to Integer(3): `prqlc fmt` changes the literal's kind (and e.g. `1 / 2.0` style arithmetic on integer-dividing targets). The behaviour is recorded in the fmt snapshots of the integration queries (arithmetic.prql: `x_float = 13.0` -> `x_float = 13`), so it is recorded here rather than repaired.",
 None)

finding("C14-star-alias-unquoted", "C14", [],
 "an alias (`name = expr`) whose name is exactly `*` (written in backticks); the formatted text has a bare `* =` and does not parse",
 "write_ident_part lets `*` through unquoted because the last part of `t.*` is stored as the identifier part `*`; for an alias that is wrong: `select {`*` = a}` is formatted as `select {* = a}` (parse error). Only reachable with an alias literally named `*`.",
 None)
finding("C14-statement-alias-dropped", "C14", [],
 "a statement that is an aliased expression without `let` (`x = (from t | ...)` at top level or inside a module): first differing path ends in `.VarDef.value.alias`, the alias is gone after formatting",
 "`module m { x = (from t | take 1) }` parses to a Main variable definition whose value carries the alias `x`; the formatter writes the pipeline only (`module m {\n  from t\n  take 1\n}`), so the re-parsed tree has no alias. Found by the libFuzzer target fmt_rt.",
 None)
finding("C13-parser-resolver-spans-are-byte-offsets", "C13", ["C12"],
 "a syntactic / resolution / type / SQL-generation error (not a lexer error) whose position is preceded by multi-byte text; the ASCII twin of the source (same length in characters) passes every check",
 "Token spans are byte offsets (chumsky over &str); only lexer errors are converted to character offsets (convert_lexer_error). ErrorMessages::composed feeds parser and resolver spans to ariadne, which counts characters: after `# é` the reported column is one too far (`Unknown name zzz_col` at 3:144 instead of 3:143), `span` (documented as a character offset) is the byte offset, and when the byte offset exceeds the character count `assert!(e.location.is_some())` panics (error_message.rs:153). Not repaired: it needs a decision on the unit of the public `span` field across lexer, parser and resolver errors.",
 None)
finding("C13-interpolation-span-after-escapes", "C13", [],
 "an error located inside the placeholder of an f-string / s-string that has escape sequences *before* the placeholder; reported as `the span of an Unknown name error does not cover the name`",
 "Spans inside interpolated strings are computed on the string's processed text (escapes already replaced) and rebased by a constant: `derive {zz = f\"\\t\\t{zzz_col}\"}` reports `Unknown name zzz_col` with a span two characters too far left (it covers `t{zzz_c`): one character per byte an earlier escape sequence removed. Escapes after the placeholder do not matter.",
 None)
finding("C13-span-in-foreign-source", "C13", [],
 "an error whose span carries a source id that is not a file of the compiled source tree (internal compiler error #4317 raised for `take 3 4` after a non-boolean filter etc.: span 0:2411-2424 points into the embedded std library)",
 "`... | filter 1 + 2 | take 3 4` returns `internal compiler error; tracked at https://github.com/PRQL/prql/issues/4317` with span source_id 0 (std.prql), start 2411: the span does not lie in the named source, and location/display are absent.",
 None)

PANIC_FNS = {
 "postprocess-unwrap": ["fold_sql_query"],
 "transforms-unwrap": ["infer_type_of_special_func"],
 "transforms-lineage-unwrap": ["lineage_or_default", "infer_lineage"],
 "lowering-literal-row-unwrap": ["lower_table_ref"], "lowering-unwrap": ["lower_table_ref"],
 "gen-expr-unwrap": ["translate_cid"], "gen-expr-result-unwrap": ["try_into_between"], "pq-gen-query-unwrap": ["compile_relation_instance"],
 "ident-unwrap": ["from_path"], "names-unwrap": ["resolve_ident_wildcard"], "operators-unwrap": ["find_operator_impl", "translate_operator"],
 "functions-unwrap": ["resolve_function_args"],
}
def panic_finding(slug, file, prefix, example, stage, extra="", input_kind=None, input_contains=None):
    fid = "C12-panic-" + slug
    narrow = ""
    if input_kind: narrow += f", input kind {input_kind}"
    if input_contains: narrow += f", input contains {input_contains!r}"
    if slug in PANIC_FNS: narrow += f", raised in fn {' / '.join(PANIC_FNS[slug])}"
    FINDINGS.append({"id": fid, "property": "C12", "also_seen_by": [], "status": "open",
        "signature": f"panic raised in {file} whose message starts with {prefix!r} (matched on file and message prefix, not on the line){narrow}",
        "panic_file": file, "panic_message_prefix": prefix,
        **({"input_kind": input_kind} if input_kind else {}), **({"input_contains": input_contains} if input_contains else {}),
        **({"panic_fn": PANIC_FNS[slug]} if slug in PANIC_FNS else {}),
        "description": f"{stage} panics instead of returning an error. {extra}".strip(),
        "example": example})

panic_finding("error-span-out-of-bounds", "prqlc/src/error_message.rs", "span ",
 "from t | select {a = \"é\"} | derive {zz = 1 +", "prql_to_pl / compile",
 "assert!(e.location.is_some()) in ErrorMessages::composed: parser spans are byte offsets, ariadne counts characters (same root cause as C13-parser-resolver-spans-are-byte-offsets); any parse error at the end of a source containing multi-byte text.")
panic_finding("column-name-not-set", "prqlc/src/sql/gen_expr.rs", "name of this column has not been to be set",
 "from t1 | select {id, a} | derive {c2 = id} | sort {id} | select {c5 = c2}", "compile / rq_to_sql",
 "translate_cid expects a name for a sort column that was renamed / aliased (sort key rename, take-in-group then sort then aggregate).")
panic_finding("gen-expr-unwrap", "prqlc/src/sql/gen_expr.rs", "called `Option::unwrap()` on a `None` value",
 "token-mutated program: ... select {c0 = f && f, c1 * id ?? t2.id ?? a, f} ...", "compile")
panic_finding("type-intersection-todo", "prqlc/src/semantic/resolver/types.rs", "not yet implemented",
 "from t1 | select {id, s} | derive {id = id + 1} | append (from t2 | select {c4 = 0, c7 = id})", "compile / pl_to_rq",
 "todo!() in type_intersection / type_intersection_of_tuples, reached by append / join of relations with differently shaped tuples.")
panic_finding("cannot-find-cid", "prqlc/src/semantic/lowering.rs", "cannot find cid",
 "let l1 = (from t1 | select {t1.id, k, x} | window (derive {c3 = t1.id, ...})) ...", "compile / pl_to_rq")
panic_finding("names-unwrap", "prqlc/src/semantic/resolver/names.rs", "called `Option::unwrap()` on a `None` value",
 "from t1 | sort {x, (id * -1)} | derive {c0 = x, c1 = x} | select {id, c2 = ...} | select {id, c3 = ...} (token-mutated)", "compile / pl_to_rq")
panic_finding("functions-unwrap", "prqlc/src/semantic/resolver/functions.rs", "called `Option::unwrap()` on a `None` value",
 "from t2 | select {id, k, f, a} | window (as {c0 = \"a\"}) | join ...", "compile / pl_to_rq")
panic_finding("inference-unwrap", "prqlc/src/semantic/resolver/inference.rs", "called `Option::unwrap()` on a `None` value",
 "let l0 = (from t3 | select {t3.id, k, from t3.u, f} | ...)  from r0 = l0 | select {u, c0 = k}", "compile / pl_to_rq")
panic_finding("bad-special-function-cast", "prqlc/src/semantic/resolver/transforms.rs", "bad special function cast",
 "from t2 | select {id} | group {id} (sort {id} | -> derive {c2 = (rank 1)})", "compile / pl_to_rq")
panic_finding("operators-unwrap", "prqlc/src/sql/operators.rs", "called `Option::unwrap()` on a `None` value",
 "prqlc/tests/integration/queries/date_to_text.prql compiled for redshift", "compile / rq_to_sql",
 "find_operator_impl(..).unwrap(): std operator without an implementation for the dialect (the repository's own date_to_text query under a dialect its test header skips).")
panic_finding("module-unwrap", "prqlc/src/semantic/module.rs", "called `Option::unwrap()` on a `None` value",
 "from t1 | select {id, u} | append (from id | select {c2 = id, u}) | group {id} (take 1)", "compile / pl_to_rq",
 "lineage.find_input_by_name(..).unwrap() in Module::insert_frame: after an append whose bottom relation is named like a column, a column's lineage names an input that the frame does not list.")
panic_finding("context-no-entry", "prqlc/src/sql/pq/context.rs", "no entry found for key",
 "from t1 | select {t1.id, k} | select !{t1.id} | derive {c1 = \"b\", c2 = f\"{c1} \" <= \"A\"} | window (derive {c2 = case [c2 && c2 => ...]})", "compile / rq_to_sql")
panic_finding("context-assert-eq", "prqlc/src/sql/pq/context.rs", "assertion `left == right` failed",
 "RQ JSON whose relation.columns length differs from its closing Select (load_names assert_eq!)", "rq_to_sql on RQ JSON")
panic_finding("gen-projection-no-entry", "prqlc/src/sql/gen_projection.rs", "no entry found for key",
 "RQ JSON with a Select naming a column id that is not defined", "rq_to_sql on RQ JSON")
panic_finding("gen-expr-no-entry", "prqlc/src/sql/gen_expr.rs", "no entry found for key",
 "RQ JSON whose Take.sort names a column id that is not defined", "rq_to_sql on RQ JSON")
panic_finding("anchor-no-entry", "prqlc/src/sql/pq/anchor.rs", "no entry found for key",
 "RQ JSON with a dangling column id", "rq_to_sql on RQ JSON")
panic_finding("pq-gen-query-unwrap", "prqlc/src/sql/pq/gen_query.rs", "called `Option::unwrap()` on a `None` value",
 "RQ JSON whose From names a table id that is not declared", "rq_to_sql on RQ JSON")
panic_finding("bad-rq-ids", "prqlc/src/sql/gen_expr.rs", "bad RQ ids",
 "RQ JSON whose expression refers to a column id no table or compute defines", "rq_to_sql on RQ JSON")
panic_finding("gen-expr-result-unwrap", "prqlc/src/sql/gen_expr.rs", "called `Result::unwrap()` on an `Err` value",
 "RQ JSON in which an operator is given operands of a shape its template cannot unpack", "rq_to_sql on RQ JSON")
panic_finding("ident-unwrap", "prqlc-parser/src/parser/pr/ident.rs", "called `Option::unwrap()` on a `None` value",
 "PL JSON with an empty Ident path: {\"Ident\": []}", "json::to_pl")
panic_finding("lowering-unwrap", "prqlc/src/semantic/lowering.rs", "called `Option::unwrap()` on a `None` value",
 "from [{id = 1, k = 5, k = -5}, {id = 4, k = -5}] | select {id}", "compile / pl_to_rq",
 "a relation literal whose row repeats a field name (found by the libFuzzer target src_stages).", input_contains="[")
panic_finding("lowering-literal-row-unwrap", "prqlc/src/semantic/lowering.rs", "called `Result::unwrap()` on an `Err` value",
 "from t3 = ([take -1 {id = 0, a = 0}, {id = 0, a = 0, b = 0}]) | select {id, a}", "compile / pl_to_rq",
 "an array in relation position whose element is not a tuple (here a function applied to a tuple): `row.kind.into_tuple().unwrap()` (found by token mutation of relation-literal programs at seed 2).", input_contains="[")
panic_finding("transforms-lineage-unwrap", "prqlc/src/semantic/resolver/transforms.rs", "called `Result::unwrap()` on an `Err` value",
 "from t2 | select {a, b} | window ((rank a) > from) | select {a}", "compile / pl_to_rq",
 "`lineage_or_default(body).unwrap()` in infer_lineage: the body of a `window` / `group` pipeline is not a relation (e.g. a comparison) - `expected .. to have table type` is unwrapped instead of returned (found by token mutation at seed 3).")
panic_finding("gen-query-unreachable", "prqlc/src/sql/gen_query.rs", "internal error: entered unreachable code",
 "RQ JSON of a two-relation program in which a transform of the main pipeline was replaced by one the SQL back-end does not expect at that place", "rq_to_sql on an RQ JSON document",
 "`unreachable!()` in the translation of a pipeline to a SELECT: the RQ deserialises but is not one the resolver emits (found by RQ JSON mutation at seed 8).", input_kind="rq-json")
panic_finding("postprocess-unwrap", "prqlc/src/sql/pq/postprocess.rs", "called `Option::unwrap()` on a `None` value",
 "RQ JSON with a table reference that names no declared table", "rq_to_sql on an RQ JSON document",
 "`fold_sql_query` (sort inference over CTEs) unwraps a lookup that a resolver-emitted RQ always satisfies (found by RQ JSON mutation at seed 10).", input_kind="rq-json")
panic_finding("pq-gen-query-unreachable", "prqlc/src/sql/pq/gen_query.rs", "internal error: entered unreachable code",
 "RQ JSON whose relation kind was replaced by one `compile_relation` does not expect (e.g. a built-in function relation)", "rq_to_sql on an RQ JSON document",
 "`unreachable!()` in compile_relation (found by RQ JSON mutation at seed 13).", input_kind="rq-json")
panic_finding("transforms-unwrap", "prqlc/src/semantic/resolver/transforms.rs", "called `Option::unwrap()` on a `None` value",
 "PL JSON of `let distinct = rel -> (from t = _param.rel | group {t.*} (take 1))` with a span edited", "pl_to_rq on a PL JSON document or compile of a source",
 "`infer_type` unwraps the type of a transform's input / pipeline (`transform_call.input.ty`, a `group` pipeline's body): absent for a PL JSON document with edited nodes (libFuzzer target json_pl) and for `group {f, a} (take -> 1)`, where the pipeline is a lambda (token mutation, seed 7).")
panic_finding("codegen-ast-unwrap", "prqlc/src/codegen/ast.rs", "called `Option::unwrap()` on a `None` value",
 "PL JSON mutated so that a node the formatter unwraps is missing", "pl_to_prql on PL JSON")
for kind, what, nmin in [("pipeline", "a pipeline of N `| derive {x = 1}` steps", 1024), ("add", "`1 + 1 + ... + 1` with N terms", 1024), ("lets", "a chain of N let-tables each reading the previous one", 4096), ("fstr", "an f-string with N interpolations", 16384)]:
    FINDINGS.append({"id": f"C12-deep-nesting-{kind}", "property": "C12", "also_seen_by": [], "status": "open",
        "signature": f"nesting ladder kind `{kind}`: the child process is killed by a signal (stack overflow) at depth >= {nmin}",
        "description": f"{what}, N = {nmin}: compile overflows the 8 MiB main-thread stack (recursive descent / PlFold without a depth limit) and the process aborts with SIGABRT.",
        "example": f"pv depth {kind} {nmin}"})

FINDINGS.append({"id": "C12-abort-rq-json", "property": "C12", "also_seen_by": [], "status": "open",
    "signature": "an RQ JSON document on which rq_to_sql kills the process by a signal (stack overflow -> SIGABRT)",
    "description": "RQ JSON in which a Compute refers to its own column id (`{\"Compute\": {\"id\": 2, \"expr\": ColumnRef 2 * -1}}`) followed by a Sort/Take on it: the SQL back-end inlines the expression recursively without a visited set and overflows the stack; the process aborts instead of returning an error.",
    "example": "see replays/C12/abort-rq-json-self-referential-compute.json"})

FINDINGS.append({"id": "C12-abort-source", "property": "C12", "also_seen_by": [], "status": "open",
    "signature": "a source containing `import` on which a stage kills the process by a signal (stack overflow -> SIGABRT)",
    "description": "`import x` followed by `from x` (16 bytes) sends the resolver into unbounded recursion (an import that resolves to itself): the process aborts with a stack overflow instead of returning an error.",
    "example": "import x\nfrom x"})
finding("C10-ambiguous-computed-name-unaliased-join", "C10", [],
 "a bare name after a join whose right-hand sub-pipeline has no relation alias, when the name is computed / aliased on both sides, or when both sides read the same table (same relation name)",
 "`from t1 | select {id, a = b} | join (from t2 | select {a = id}) (true) | derive {zz = a}` is accepted and `a` silently resolves to the right-hand column; likewise `from t2 | select {id, s} | join (from t2 | select {id}) (true) | derive {zz = id}` (both sides are relation `t2`). Other combinations (plain column of different tables on either side, or a relation alias on the right) are rejected as `Ambiguous name`.",
 None)

finding("C07-ansi-underscore-identifier", "C07", ["C05", "C09"],
 "dialect ansi, the emitted SQL contains a generated name `_expr_N` and sqlparser's AnsiDialect reports `Expected: an identifier`",
 "Generated helper names start with an underscore (`... AS _expr_0`); in ANSI SQL a regular identifier must start with a letter, so the name would need quoting under the ansi dialect. sqlparser's AnsiDialect rejects the statement.",
 None)
finding("C07-mssql-boolean-literal", "C07", ["C05", "C09"],
 "dialect mssql, the binder reports that column `true` / `false` is not in scope",
 "Boolean literals are emitted verbatim for mssql (`WHERE true`, `INNER JOIN .. ON true`, `false AS c`); T-SQL has no boolean literals, the words are parsed as column names (SQL Server: Invalid column name 'true').",
 None)
finding("C05-result-column-order-differs-from-frame", "C05", ["C01"],
 "the result has the frame's columns (same arity, same names) in a different order",
 "After `group` with a non-aggregating pipeline / `select !{..}` over a frame that mixes columns of input relations with computed columns, the SQL projection lists the relations' columns first and the computed ones afterwards (construct_tuple_from_module sorts name-space entries by an `order` that counts inputs and columns on different scales), so the result column order differs from the frame (RQ relation.columns); before the fix of the tie-break the order even varied between runs.",
 None)
finding("C11-order-by-alias-choice-hash-dependent", "C11", [],
 "two outputs for the same call that are equal once the key lists of their ORDER BY clauses are blanked",
 "When the column a sort refers to is visible under several names (`select {c0 = id, id, c1 = id} | sort {id, (c0 * 2)}`), the name used in the emitted ORDER BY (`ORDER BY c0, _expr_0` vs `ORDER BY c1, _expr_0`) is whichever alias a hash-map iteration in the sort post-processing meets first: the SQL text differs between runs (the rows do not).",
 None)

finding("C07-join-rewritten-to-intersect", "C07", ["C01", "C05", "C09"],
 "the program has no `intersect`, the emitted SQL contains INTERSECT ALL and the binder reports a set operation between different arities",
 "preprocess.rs rewrites an inner join whose condition equates every (remaining) column of both sides into INTERSECT ALL. After column pruning or with a wildcard side the operands differ in arity: `from l0 | join t1 (c0 == id) | select {c3 = c0 + 1, c0}` -> `SELECT c0 FROM l0 INTERSECT ALL SELECT * FROM t1`. (When the arities do agree the rewrite still changes multiplicities: m x n matching pairs become min(m, n) rows; not executable on SQLite, which has no INTERSECT ALL.)",
 None)

finding("C07-distinct-on-computed-sort-key", "C07", ["C09"],
 "a dialect with DISTINCT ON (postgres, duckdb, ...), `group k (sort {..} | take 1)` with a computed sort key or a computed group key (also when the group-take ends a let-table that is read elsewhere, and when a following `group {all columns} (take 1)` merges it into a plain `SELECT DISTINCT .. ORDER BY k, _expr_N`): the binder reports `ORDER BY:` / `SELECT: column _expr_N is not in scope`",
 "`from t | select {a, b, c} | group {a} (sort {(b * 0), c} | take 1)` under postgres: `SELECT DISTINCT ON (a) a, c, b FROM t ORDER BY a, _expr_0, c`: the computed sort key is referred to by its generated alias, which this SELECT never defines. With a computed group key at the end of a let-table (`select {c9 = c7 ** 0 >= 0.25, c6} | group {c9} (sort {-c6} | take 1)`) the reader re-evaluates the key expression over `_expr_0`, which the CTE does not expose.",
 None)

finding("C09-generated-cte-name-equals-user-column", "C09", [],
 "a user column or alias is named like a generated relation (`table_N`) and the emitted SQL defines a CTE / alias of that name",
 "Generated relation names are only kept distinct from user *table* names. With a user column `table_0`, the CTE `table_0 AS (SELECT .. table_0 FROM ..)` makes `table_0.table_0` a compound identifier whose two parts deduplicate_select_items has already seen, so the column is dropped from the projection (arity 4 for a 5-column frame / `no such column: table_0`), and a bare `table_0` in ORDER BY becomes ambiguous with the relation.",
 None)

finding("C09-helper-column-name-equals-user-column", "C09", [],
 "a user table, column or alias is named like a generated helper column (`_expr_N`) in a program for which the compiler needs a helper column",
 "`select {_expr_1, limit = A % 1, _expr_0 = 0 ** 0} | filter _expr_1 + 1 != limit + 3 | filter (rank limit) > 2`: the windowed filter needs a helper column; the compiler names it `_expr_1`, which is the user's column: the emitted `WHERE _expr_1 > 2` filters on the user's column and the RANK() is never computed. With a user *table* named `_expr_1`: the helper `window.user AS _expr_1` is removed from the projection by deduplicate_select_items because `_expr_1` was already seen as the qualifier of `_expr_1.Mixed`, and the later `ORDER BY _expr_1` has no such column.",
 None)

finding("C08-quote-sequences-treated-as-already-escaped", "C08", [],
 "a string literal whose value contains two consecutive single quotes or a backslash followed by a single quote",
 "String literals are emitted through sqlparser's Display for SingleQuotedString, which leaves a quote alone when it looks already escaped. "
 "The two-character value made of two single quotes is emitted as two quotes, i.e. ONE quote: `select {v = \" ''\"}` -> `SELECT ' '''` returns a space and one quote. "
 "The value backslash + quote is emitted with the quote not doubled: under SQLite / standard SQL the literal ends there "
 "(`select {v = \"1\\\"\\\\'x\"}` -> SQLite: unrecognized token): the content of a literal alters the statement (the SQL-injection boundary).",
 None)
finding("C08-backslash-in-backslash-escaping-dialects", "C08", [],
 "a string literal containing a backslash, under a dialect whose tokenizer treats backslash as an escape character (mysql, bigquery, clickhouse, snowflake ...): the string token does not unescape to the value, or the token structure changes",
 "Backslashes are emitted verbatim for every dialect; under MySQL-style escaping a backslash swallows the next character and a trailing backslash un-terminates the literal. The book's strings page admits that escaping is not dialect-aware.",
 None)
finding("C08-bigquery-quote-doubling", "C08", [],
 "dialect bigquery, a string literal containing a single quote",
 "Quotes are escaped by doubling for every dialect. BigQuery does not accept doubled quotes (it needs a backslash) and reads three quotes in a row as the start of a triple-quoted string: a value that starts with a quote is emitted as three quotes in a row followed by the rest, an unterminated literal under BigQuery lexical rules.",
 None)
finding("C06-let-sort-not-applied-to-windows", "C06", ["C03", "C01", "C04", "C07"],
 "a pipeline prefix that ends with a sort in effect is named with let / into and the continuation uses a window function (rank, row_number, lag, running sum ...)",
 "`from t2 | select {id, f, x} | sort {-x, -id} | derive {c1 = (rank id)}` ranks in the sort order (`RANK() OVER (ORDER BY x DESC, id DESC)`); after `... | sort {-x, -id} | into z` + `from z | derive {c1 = (rank id)}` the window has no ORDER BY (`RANK() OVER ()`, every row gets rank 1) although the final ORDER BY is still propagated: the sort of a let-table is carried to the end of the query but not to window functions.",
 None)
finding("C06-sorted-let-computed-key-recomputed", "C06", [],
 "a pipeline prefix that ends with a sort in effect on a computed column (a derive / select expression or the result of `aggregate`) is named with let / into, and the continuation no longer selects that column (join, group, select)",
 "`.. | group {id} (aggregate {c0 = min 25, c1 = count 5}) | sort {id, c1} | filter .. | select {c2 = 'ab', c0}`: after naming the prefix up to the sort `zlet0`, the reader is compiled as `table_0 AS (SELECT 'ab' AS c2, c0, id, COUNT(*) AS c1 FROM zlet0)`: the sort key is not read from the CTE but re-evaluated in the outer SELECT - an aggregate turns it into an aggregate query (one row of NULLs), a scalar expression (`c3 = id % 1`, `sort {c3}`) is emitted as `id % 1 AS c3 FROM zlet1` where `id` does not exist (no such column). The inline form carries the key as `_expr_0`.",
 None)
finding("C07-sort-key-rename-scope", "C07", ["C01", "C03", "C04"],
 "a select that renames (aliases) a key of the sort in effect, followed by steps that force a sub-query (filter on the alias + another select) (hazard sort_key_rename)",
 "`from t3 | select {u, f, a} | sort {f} | select {c0 = f} | filter c0 | select {c1 = 0}` compiles to `WITH table_0 AS (SELECT f AS _expr_0, f FROM t3), table_1 AS (SELECT 0 AS c1, f FROM table_0 WHERE _expr_0) SELECT c1 FROM table_1 ORDER BY _expr_0`: the final ORDER BY names the alias column `_expr_0`, which table_1 does not carry (it carries `f`). Same family as the recorded panic C12-panic-column-name-not-set.",
 None)
finding("C01-take-then-distinct-merged", "C01", ["C03", "C04", "C06"],
 "an un-partitioned `take` followed by `group {every column of the frame} (take 1)` (the distinct idiom) (hazard take_distinct)",
 "`from t2 | select {id, a, b} | sort {a, id} | take 1 | group {id, a, b} (take 1)` compiles to `SELECT DISTINCT id, a, b FROM t2 LIMIT 1`: DISTINCT and LIMIT share one SELECT (DISTINCT is applied before LIMIT) and the ORDER BY of the take is dropped, so other rows are returned.",
 {"source": "from t1 | select {id, a} | sort {-id} | take 1 | group {id, a} (take 1)", "arity": 2, "rows": [[I(3),I(2)]]})
finding("C05-exclusion-by-bare-name-after-split", "C05", [],
 "duckdb / snowflake / bigquery: `select !{t.n}` over a join of two wildcard relations that both have a column n, when later steps force a sub-query: the result lacks the other relation's n as well",
 "`from t2 | join t1 (t2.id == t1.a) | derive {..} | filter !t2.f | select !{t2.f} | filter ..` under bigquery: `WITH table_0 AS (SELECT t2.* EXCEPT (f), t1.*, .., t2.f FROM ..) SELECT * EXCEPT (f) FROM table_0 WHERE ..`: the outer, unqualified `* EXCEPT (f)` removes both the helper copy of t2.f and t1.f, which is part of the frame.",
 None)
finding("C05-wildcard-sort-helper-kept-with-exclude", "C05", [],
 "duckdb / snowflake / bigquery, a wildcard query that ends with a sort on a computed key in effect: the extra result columns are exactly the `_expr_N` named in the final ORDER BY",
 "`from t2 | .. | sort {(k * -1)} | filter (min 0) > 0 | ..` under bigquery ends in `SELECT * EXCEPT (_expr_0) FROM table_0 WHERE _expr_0 > 0 ORDER BY _expr_1`: the computed sort key `_expr_1` is part of `*` and is not excluded, so the result has one column more than the frame (the helper of the filter is excluded correctly).",
 None)
finding("C07-loop-after-sort-arity", "C07", ["C05"],
 "a `loop` whose input pipeline has a sort in effect: the emitted WITH RECURSIVE has a UNION ALL between different arities",
 "`from t1 | select {id} | sort {id} | take 3 | select {zn = 1} | loop (filter zn < 4 | select {zn = zn + 1})`: the sort column is appended to the anchor of the recursive CTE only (`SELECT 1 AS zn, id FROM .. UNION ALL SELECT zn + 1 FROM table_0 ..`).",
 None)
finding("C05-consecutive-exclusions-forget-first", "C05", [],
 "a second `select !{..}` over a frame that still contains the wildcard of a relation whose columns are unknown, any dialect (hazard wild_except_twice)",
 "`from t1 | select !{id} | select !{a}` compiles under duckdb to `SELECT * EXCLUDE (a) FROM t1`: `id` is back. The second exclusion is resolved against all columns of the input relation (lowering find_selected_all / Lineage::apply_assign take `within` = the whole input), so the earlier exclusion is forgotten; also with steps in between (`select !{id} | take 3 | select !{a}`, `select !{id} | sort {a} | select !{a}`).",
 None)
finding("C05-excluded-sort-key-returns", "C05", [],
 "`select !{..}` over a wildcard frame while a sort is in effect, followed by further steps (hazard wild_except_sorted)",
 "`from t1 | sort {id} | take 2 | select !{id} | derive {c = a + 1}` compiles under duckdb to `WITH table_1 AS (SELECT * FROM t1 ORDER BY id LIMIT 2), table_0 AS (SELECT * FROM table_1) SELECT *, a + 1 AS c FROM table_0 ORDER BY id`: no EXCLUDE at all, `id` is in the result. The sort key has to stay available to the final ORDER BY, and the exclusion is dropped instead of being applied in the last SELECT.",
 None)
finding("C07-wildcard-join-duplicate-names", "C07", ["C01", "C05"],
 "a join of two relations of unknown columns (`from t | join u (..)`, both emitted as `t.*, u.*`) that share a column name, followed by steps that move the join into a CTE and refer to a shared name (hazard wild_dup_join)",
 "`from t1 | join t2 (==id) | derive {c2 = 1} | filter t2.a == 5` compiles to `WITH table_0 AS (SELECT t1.*, t2.*, 1 AS c2 FROM t1 INNER JOIN t2 ON t1.id = t2.id) SELECT * FROM table_0 WHERE a = 5`: inside table_0 there are two columns `a`; the filter meant t2.a (SQLite silently takes the first, other engines reject the ambiguous name). With a self-join (`from t3 | join r0 = t3 (==s) | derive {..} | filter r0.a == 0`) the reference becomes `_expr_1`, which table_0 never defines (no such column).",
 None)
finding("C09-user-table-renamed-as-generated", "C09", [],
 "a user table called `table_M` in a program where a CTE is named `table_M` first (a let-table that needs a helper CTE, a table s-string): the emitted SQL reads `table_N AS table_M` for the user's table, and no relation `table_N` is defined",
 "Generated CTE names are assigned without regard to a user table of the same name that is lowered later, and that table is then renamed as if it were a generated one: `let x = (from s\"SELECT 1 AS id\" | take 1)  from table_0 | join x (==id)` compiles to `WITH table_0 AS (SELECT 1 AS id), x AS (..) SELECT .. FROM table_1 AS table_0 INNER JOIN x ..` - `table_1` does not exist. Also without s-strings: `module ma { let lt = (from table_0 | select {..} | derive .. | join side:left r = (from table_0 | filter .. | select {..}) (..)) } ..` emits `FROM table_1 AS table_0` inside the CTEs of `lt` (met by the hazardous-name generator at seed 5).",
 {"source": "let x = (from s\"SELECT 1 AS id\" | take 1)\nfrom table_0 | join x (==id) | select {table_0.id, table_0.a}", "arity": 2, "rows": [[I(1), I(10)]], "props": ["C09"],
  "db": {"tables": [{"name": "table_0", "cols": [{"name":"id","ty":"Int"},{"name":"a","ty":"Int"}], "rows": [[I(1),I(10)],[I(2),I(20)]]}]}})
finding("C08-formatter-rewrites-literal-with-backslash", "C08", [],
 "output formatting on (the default `Options::format`), a string literal whose value contains a backslash",
 "The SQL text is re-laid-out by sqlformat, whose tokenizer treats backslash as an escape character inside quotes: `select {v = '\\\\'}` (the one-character value backslash) is emitted as `' \\ '` with formatting on (and correctly as the two characters quote-backslash-quote with `no_format`): the literal's content is rewritten, and a backslash before the closing quote makes the rest of the statement part of the 'string'.",
 None)
finding("C08-nul-character", "C08", [],
 "a string literal containing U+0000",
 "A NUL character is emitted verbatim inside the SQL text; SQLite's C API truncates the statement / the value at it.",
 None)

k = json.load(open(os.path.join(V, "known_findings.json")))
REMOVED = {"C12-panic-range-of-ranges-overflow", "C11-column-order-hash-dependent", "C11-error-text-hash-dependent", "C02-double-negation", "C06-sorted-let-aggregate-key-recomputed", "C11-helper-column-qualifier-hash-dependent"}  # repaired by a fix: commit (see "fixed")
keep = [f for f in k["findings"] if f["id"] not in {x["id"] for x in FINDINGS} and f["id"] not in REMOVED]
k["findings"] = keep + FINDINGS
json.dump(k, open(os.path.join(V, "known_findings.json"), "w"), indent=1, ensure_ascii=False)
print(len(k["findings"]), "findings")
