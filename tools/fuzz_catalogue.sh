#!/bin/bash
# Long exploratory campaigns (run from a snapshot via `vp run`): everything they report is triaged by hand
# into known_findings.json / fix commits / oracle corrections before the thorough tier is trusted.
# usage: tools/fuzz_catalogue.sh <seconds-per-target> [targets...]
set -u
export VERIF_DIR="$PWD" CARGO_TARGET_DIR="$PWD/target" CARGO_NET_OFFLINE=true
SECS=${1:-600}; shift
TARGETS=${*:-"src_stages json_pl json_rq fmt_rt staged err_span lex_tile tape_c16 tape_c10 tape_c01"}
(cd harness && cargo build --release --offline 2>&1 | tail -1)
./bin/setup-fuzz 2>&1 | tail -1
ulimit -s unlimited
for t in $TARGETS; do
  echo "=== $t"
  ./target/release/pv fuzz $t $SECS 2>&1 | grep -E "VIOLATION|what=|KNOWN|executions|coverage_edges|oom_timeout|reproduced|not_repro|process_died|note"
done
echo "=== replays written:"; ls replays/*/new-* 2>/dev/null
