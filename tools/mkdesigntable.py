#!/usr/bin/env python3
"""Rewrites the findings table of DESIGN.md section 10.3 from known_findings.json."""
import json
s = open('/verif/DESIGN.md').read()
k = json.load(open('/verif/known_findings.json'))
i = s.index('### 10.3 Recorded findings')
j = s.index('### 10.4 Observations')
rows = []
for f in k['findings']:
    also = f.get('also_seen_by') or []
    prop = f['property'] + (' (+' + ','.join(also) + ')' if also else '')
    sig = f['signature'].replace('|', '/').replace('\n', ' ')
    if len(sig) > 150:
        sig = sig[:150]
    rows.append(f"| {f['id']} | {prop} | {sig} |")
tbl = f"""### 10.3 Recorded findings (open; exact predicates in `prop/*.rs`)
{len(k['findings'])} findings; full descriptions and examples are in `known_findings.json`.

| id | property (also seen by) | signature |
|---|---|---|
""" + "\n".join(rows) + "\n\n"
open('/verif/DESIGN.md', 'w').write(s[:i] + tbl + s[j:])
print(len(rows), "rows")
