#!/bin/bash
# usage: run_seed.sh <seed dir name> <patch file> <property> [more properties...]
# applies the seeded change to /repo, runs the quick checks, reverts. Prints one line per check.
NAME=$1; PATCH=$2; shift 2
cd /repo && git status --short | grep -q . && { echo "repo dirty"; exit 2; }
git -C /repo apply "$PATCH" || { echo "patch does not apply"; exit 2; }
for P in "$@"; do
  OUT=$(cd /verif && VERIF_SEED=${VERIF_SEED:-1} ./bin/check $P quick 2>&1)
  CODE=$?
  V=$(echo "$OUT" | grep -c "^VIOLATION")
  echo "seed=$NAME check=$P exit=$CODE violations=$V :: $(echo "$OUT" | grep -A1 '^VIOLATION' | grep 'what=' | head -2 | tr '\n' ' ' | cut -c1-300)"
  mkdir -p /verif/seeded/$NAME/caught
  for f in $(echo "$OUT" | grep "^VIOLATION" | sed 's/.*replay=//' | head -2); do cp "$f" /verif/seeded/$NAME/caught/ 2>/dev/null; done
  rm -f /verif/replays/$P/new-*
done
git -C /repo checkout -- . ; git -C /repo status --short | head -3
