#!/bin/bash
# Confirms a seeded change in its scratch worktree: tests green with the patch, demo fails with it, passes without.
# usage: verify_seed.sh <ID> [worktree]   (default worktree /root/scratch/seed2-<ID>; deliverables in <worktree>-out)
ID=$1; WT=${2:-/root/scratch/${SEEDWAVE:-seed8}-$ID}; OUT=$WT-out; export CARGO_TARGET_DIR=$WT-target CARGO_NET_OFFLINE=true CARGO_PROFILE_DEV_DEBUG=0 CARGO_PROFILE_TEST_DEBUG=0
cd $WT || exit 2
{
echo "== $ID: patch stat"; git diff --stat | tail -3
echo "== tests with patch"
cargo test --offline -p prqlc -p prqlc-parser -p mdbook-prql --no-fail-fast 2>&1 | grep -E "^test result|FAILED|failed" | head -12
cp $OUT/demo.rs prqlc/prqlc/examples/seed_demo.rs
echo "== demo with patch"; cargo run --offline -q -p prqlc --example seed_demo >$OUT/demo-with.txt 2>&1; echo "exit=$?"; tail -3 $OUT/demo-with.txt
rm -f prqlc/prqlc/examples/seed_demo.rs
git diff > $OUT/cur.diff; git apply -R $OUT/cur.diff
cp $OUT/demo.rs prqlc/prqlc/examples/seed_demo.rs
echo "== demo without patch"; cargo run --offline -q -p prqlc --example seed_demo >$OUT/demo-without.txt 2>&1; echo "exit=$?"; tail -2 $OUT/demo-without.txt
rm -f prqlc/prqlc/examples/seed_demo.rs
git apply $OUT/cur.diff
} > $OUT/verify.log 2>&1
cat $OUT/verify.log
