#!/bin/bash
# A scaled-down pass over every thorough tier (VERIF_SCALE of the thorough case counts, short fuzz campaigns),
# run from a snapshot via `vp run`, to see whether the larger tiers stay silent on the unchanged tree.
export VERIF_DIR="$PWD" CARGO_TARGET_DIR="$PWD/target" CARGO_NET_OFFLINE=true
export VERIF_SCALE=${VERIF_SCALE:-0.15} VERIF_FUZZ_SECS=${VERIF_FUZZ_SECS:-45}
for i in ${*:-01 02 03 04 05 06 07 08 09 10 11 12 13 14 15 16 17 18}; do
  s=$(date +%s); ./bin/check C$i thorough > thorough_C$i.log 2>&1; code=$?
  echo "C$i exit=$code t=$(( $(date +%s)-s ))s viol=$(grep -c '^VIOLATION' thorough_C$i.log) :: $(grep -A1 '^VIOLATION' thorough_C$i.log | grep 'what=' | head -3 | tr '\n' ' ' | cut -c1-300)"
done
