#!/bin/bash
# usage: run_seed_iso.sh <seed dir name> <property> [more properties...]
# Like run_seed.sh, but isolated from /repo and /verif so that both can be edited meanwhile: the patch is
# applied to the scratch worktree /root/scratch/vrepo and the checks run from a copy of /verif
# (/root/scratch/vsnap, refreshed by `run_seed_iso.sh --sync`) whose harness depends on that worktree.
SNAP=${ISO_SNAP:-/root/scratch/vsnap}; VREPO=${ISO_REPO:-/root/scratch/vrepo}
if [ "$1" = "--sync" ]; then
  [ -d $VREPO ] || git -C /repo worktree add --detach $VREPO HEAD >/dev/null
  git -C $VREPO checkout -q --detach "$(git -C /repo rev-parse HEAD)" && git -C $VREPO checkout -- .
  mkdir -p $SNAP; rsync -a --delete --exclude target --exclude 'fuzz/target' --exclude 'fuzz/corpus-work' --exclude .git --exclude 'replays/*/new-*' /verif/ $SNAP/
  sed -i "s#/repo/prqlc#$VREPO/prqlc#g" $SNAP/harness/Cargo.toml
  sed -i "s#^target-dir = .*#target-dir = \"$SNAP-target\"#" $SNAP/harness/.cargo/config.toml
  exit 0
fi
NAME=$1; shift
PATCH=/verif/seeded/$NAME/patch.diff; [ -f /verif/seeded/$NAME/patch.rebased.diff ] && PATCH=/verif/seeded/$NAME/patch.rebased.diff
git -C $VREPO checkout -- . ; git -C $VREPO apply $PATCH 2>/dev/null || git -C $VREPO apply -3 $PATCH >/dev/null 2>&1 || { echo "seed=$NAME patch does not apply"; git -C $VREPO reset -q; git -C $VREPO checkout -- .; exit 2; }; git -C $VREPO reset -q
for P in "$@"; do
  OUT=$(cd $SNAP && CARGO_TARGET_DIR=$SNAP-target VERIF_SEED=${VERIF_SEED:-1} ./bin/check $P quick 2>&1)
  CODE=$?
  V=$(echo "$OUT" | grep -c "^VIOLATION")
  echo "seed=$NAME check=$P exit=$CODE violations=$V :: $(echo "$OUT" | grep -A1 '^VIOLATION' | grep 'what=' | head -2 | tr '\n' ' ' | cut -c1-300)"
  mkdir -p /verif/seeded/$NAME/caught
  for f in $(echo "$OUT" | grep "^VIOLATION" | sed 's/.*replay=//' | head -2); do cp "$f" /verif/seeded/$NAME/caught/ 2>/dev/null; done
  rm -f $SNAP/replays/$P/new-*
done
git -C $VREPO checkout -- .
