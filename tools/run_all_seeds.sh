#!/bin/bash
# Applies every seeded change in turn (git apply, 3-way fallback), runs the owning property's quick check, reverts.
# Output: one line per seed. /repo must be clean; nothing is committed there.
cd /verif
for d in seeded/*/; do
  n=$(basename $d); p=${n%%-*}
  [ -f $d/patch.diff ] || continue
  if [ -f /verif/$d/patch.rebased.diff ] && git -C /repo apply --check /verif/$d/patch.rebased.diff 2>/dev/null; then
    PATCH=/verif/$d/patch.rebased.diff
  elif ! git -C /repo apply --check /verif/$d/patch.diff 2>/dev/null; then
    if git -C /repo apply -3 /verif/$d/patch.diff >/dev/null 2>&1; then
      git -C /repo diff --cached > /tmp/rebased.diff; git -C /repo reset -q; git -C /repo checkout -- .
      cp /tmp/rebased.diff /verif/$d/patch.rebased.diff; PATCH=/verif/$d/patch.rebased.diff
    else
      git -C /repo reset -q; git -C /repo checkout -- .
      echo "seed=$n DOES-NOT-APPLY"; continue
    fi
  else
    PATCH=/verif/$d/patch.diff
  fi
  ./tools/run_seed.sh $n $PATCH $p
done
