#!/bin/bash
# usage: archive_seed.sh <ID> <suffix> [worktree]  -- copies a verified seed's deliverables to seeded/<ID>-<suffix>/ and removes the scratch worktree + build output
ID=$1; SFX=$2; WT=${3:-/root/scratch/${SEEDWAVE:-seed8}-$ID}; OUT=$WT-out; D=/verif/seeded/$ID-$SFX
mkdir -p $D
cp $OUT/patch.diff $OUT/demo.rs $OUT/meta.json $OUT/verify.log $D/ || exit 2
git -C /repo worktree remove --force $WT; rm -rf $WT-target $OUT
echo archived $D
