#![no_main]
use libfuzzer_sys::fuzz_target;

fuzz_target!(|data: &[u8]| {
    pv::fuzzglue::fuzz_entry("staged", data);
});
